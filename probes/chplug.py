"""CrossHair plugin: precise (non-realising) bitwise &,|,^ for symbolic ints against
concrete non-negative masks, as linear integer arithmetic (div/mod by constants)."""
import operator as ops
from numbers import Integral
import z3
from crosshair.libimpl import builtinslib as B
from crosshair.core import realize
from crosshair.tracers import NoTracing
from crosshair.statespace import context_statespace

WIDTH = 64

def _bits_and(var, mask):
    # var >= 0 assumed; mask concrete >= 0
    terms = []
    k = 0
    while (1 << k) <= mask:
        if mask & (1 << k):
            terms.append(((var / (1 << k)) % 2) * (1 << k))
        k += 1
    if not terms:
        return z3.IntVal(0)
    return z3.Sum(terms) if len(terms) > 1 else terms[0]

def _handler(op, a: Integral, b: Integral):
    with NoTracing():
        if isinstance(b, B.SymbolicInt) and not isinstance(a, B.SymbolicInt):
            a, b = b, a
        if isinstance(b, B.SymbolicInt):
            b = realize(b)
        if isinstance(b, bool):
            b = int(b)
        if not isinstance(a, B.SymbolicInt) or not isinstance(b, int) or b < 0 or b >= (1 << WIDTH):
            return op(realize(a), realize(b))
        space = context_statespace()
        if not space.smt_fork(a.var >= 0, probability_true=0.9):
            return op(realize(a), b)
        conj = _bits_and(a.var, b)
        if op is ops.and_:
            return B.SymbolicInt(conj)
        if op is ops.or_:
            return B.SymbolicInt(a.var + b - conj)
        if op is ops.xor:
            return B.SymbolicInt(a.var + b - 2 * conj)
        raise AssertionError(op)

def install():
    B.setup_binop(_handler, {ops.and_, ops.or_, ops.xor})
    for k in [k for k in B._BIN_OPS if k[0] in (ops.and_, ops.or_, ops.xor)]:
        del B._BIN_OPS[k]
install()

# fidelity: CPython's bytes.__getitem__ raises IndexError("index out of range")
# precision: normalise symbolic slice bounds against len() by forking on the clamp
# outcome, so realisation enumerates at most len+1 values instead of the full int range.
from crosshair.tracers import ResumedTracing, is_tracing

def _norm(x, L, default):
    if x is None:
        return default
    if not isinstance(x, B.SymbolicInt):
        return x
    if x < 0:
        x = x + L
        if x < 0:
            return 0
        return x
    if x >= L:
        return L
    return x

def _wrap_getitem(cls):
    orig = cls.__getitem__
    def __getitem__(self, i):
        if isinstance(i, slice) and i.step is None and (
                isinstance(i.start, B.SymbolicInt) or isinstance(i.stop, B.SymbolicInt)):
            L = len(self)
            i = slice(_norm(i.start, L, 0), _norm(i.stop, L, L))
        try:
            return orig(self, i)
        except IndexError:
            raise IndexError("index out of range") from None
    cls.__getitem__ = __getitem__
_wrap_getitem(B.SymbolicBytes)

# precision P5: bytes.hex() forks twice per byte (digit < 10 ?) -> 2^(2n) paths for every
# logging f-string; make the nibble -> codepoint map a single z3 If term instead.
import z3 as _z3
def _make_hex_digit(value):
    with NoTracing():
        if isinstance(value, B.SymbolicInt):
            n = value.var % 16
            return B.SymbolicInt(_z3.If(n < 10, 48 + n, 87 + n))
    num = value % 16
    return 48 + num if num < 10 else 87 + num
B.make_hex_digit = _make_hex_digit

# precision P6: stdlib ipaddress builds its error messages with "%r" % symbolic_str, which
# CrossHair realises character by character.  Inside ipaddress.py the result is only ever an
# exception message, so return an opaque constant there when an operand is symbolic.
import sys as _sys
from crosshair.util import CrossHairValue as _CHV
_orig_pct = B._str_percent_format
def _has_sym(x):
    if isinstance(x, _CHV): return True
    if isinstance(x, tuple): return any(_has_sym(y) for y in x)
    return False
def _pct(self, other):
    with NoTracing():
        f = _sys._getframe(1)
        depth = 0
        in_ip = False
        while f is not None and depth < 6:
            if f.f_code.co_filename.endswith("ipaddress.py"):
                in_ip = True; break
            f = f.f_back; depth += 1
        if in_ip and (_has_sym(other) or isinstance(self, _CHV)):
            return "<symbolic message>"
    return _orig_pct(self, other)
from crosshair import core as _core
_core._PATCH_REGISTRATIONS[str.__mod__] = _pct

# precision P7: bytes equality compares element by element with one fork per element;
# when both lengths are concrete, build a single conjunction (one fork per comparison).
def _wrap_eq(cls):
    orig = cls.__eq__
    def __eq__(self, other):
        with NoTracing():
            fast = None
            if isinstance(other, (bytes, B.SymbolicBytes)):
                a = self.inner if isinstance(self, B.SymbolicBytes) else self
                b = other.inner if isinstance(other, B.SymbolicBytes) else other
                if isinstance(a, (list, tuple, bytes)) and isinstance(b, (list, tuple, bytes)):
                    if len(a) != len(b):
                        return False
                    terms = []
                    ok = True
                    for x, y in zip(a, b):
                        xs = x.var if isinstance(x, B.SymbolicInt) else (_z3.IntVal(x) if isinstance(x, int) else None)
                        ys = y.var if isinstance(y, B.SymbolicInt) else (_z3.IntVal(y) if isinstance(y, int) else None)
                        if xs is None or ys is None:
                            ok = False; break
                        if isinstance(x, int) and isinstance(y, int):
                            if x != y: return False
                            continue
                        terms.append(xs == ys)
                    if ok:
                        if not terms: return True
                        fast = B.SymbolicBool(_z3.And(*terms) if len(terms) > 1 else terms[0])
            if fast is not None:
                return fast
        return orig(self, other)
    cls.__eq__ = __eq__
    cls.__ne__ = lambda self, other: not self.__eq__(other)
_wrap_eq(B.SymbolicBytes)
