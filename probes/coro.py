"""Prototype: turn real methods into generator coroutines (AST, from current source) and
run them under a scheduler whose choices are symbolic ints."""
import ast, inspect, textwrap, types

class Yielder(ast.NodeTransformer):
    def __init__(self, names):
        self.names = names
    def visit_Call(self, node):
        self.generic_visit(node)
        f = node.func
        nm = f.attr if isinstance(f, ast.Attribute) else (f.id if isinstance(f, ast.Name) else None)
        if nm in self.names:
            return ast.YieldFrom(value=node)
        return node
    def visit_FunctionDef(self, node):
        self.generic_visit(node)
        # make sure it's a generator even without yielding calls
        node.body.insert(0, ast.parse("if 0: yield").body[0])
        node.decorator_list = []
        return node

def coroutinize(fn, names, glb=None):
    src = textwrap.dedent(inspect.getsource(fn))
    tree = ast.parse(src)
    tree = Yielder(set(names)).visit(tree)
    ast.fix_missing_locations(tree)
    g = dict(fn.__globals__) if glb is None else glb
    ns = {}
    exec(compile(tree, f"<coro:{fn.__qualname__}>", "exec"), g, ns)
    return ns[fn.__name__]

class Deadlock(Exception): pass
class Prune(Exception): pass

class Sched:
    def __init__(self, choices):
        self.choices = list(choices); self.i = 0; self.threads = []
    def spawn(self, name, gen):
        self.threads.append([name, gen, None, None])   # name, gen, blocked_pred, result
    def pick(self, n):
        if n == 1: return 0
        if self.i >= len(self.choices):
            raise Prune()
        c = self.choices[self.i]; self.i += 1
        if not (0 <= c < n): raise Prune()
        return c
    def run(self):
        results = {}
        live = list(self.threads)
        while live:
            runnable = [t for t in live if t[2] is None or t[2]()]
            if not runnable:
                raise Deadlock([t[0] for t in live])
            t = runnable[self.pick(len(runnable))]
            t[2] = None
            try:
                req = next(t[1])
                if req is not None:
                    t[2] = req          # predicate that must hold to continue
            except StopIteration as s:
                results[t[0]] = s.value
                live.remove(t)
        return results

class HEvent:
    def __init__(self): self.flag = False
    def set(self):
        self.flag = True
        yield
    def clear(self):
        self.flag = False
        yield
    def is_set(self): return self.flag
    def wait(self, timeout=None):
        yield (lambda: self.flag)
        return True
