import chplug
from typing import Optional
from bromelia.base import DiameterMessage, DiameterHeader, DiameterAVP
from bromelia.avps import VendorSpecificApplicationIdAVP, VendorIdAVP, AuthApplicationIdAVP, OriginHostAVP, ExperimentalResultAVP, ExperimentalResultCodeAVP, FailedAvpAVP

def ref_avp(code: int, flags: int, vendor, data: bytes) -> bytes:
    hl = 12 if vendor is not None else 8
    n = hl + len(data)
    out = code.to_bytes(4, "big") + bytes([flags]) + n.to_bytes(3, "big")
    if vendor is not None:
        out += vendor.to_bytes(4, "big")
    out += data
    pad = (4 - n % 4) % 4
    return out + bytes(pad)

def ref_hdr(ver, flags, cmd, app, hbh, e2e, total):
    return bytes([ver]) + total.to_bytes(3,"big") + bytes([flags]) + cmd.to_bytes(3,"big") + app.to_bytes(4,"big") + hbh.to_bytes(4,"big") + e2e.to_bytes(4,"big")

def enc_generic(ver: int, hflags: int, cmd: int, app: int, hbh: int, e2e: int,
                code: int, aflags: int, vendor: Optional[int], data: bytes, data2: bytes) -> bool:
    """
    pre: 0 <= ver < 256 and 0 <= hflags < 256 and 0 <= cmd < 2**24
    pre: 0 <= app < 2**32 and 0 <= hbh < 2**32 and 0 <= e2e < 2**32
    pre: 0 <= code < 2**32 and 0 <= aflags < 256
    pre: vendor is None or 0 <= vendor < 2**32
    pre: (aflags >= 128) == (vendor is not None)
    pre: len(data) == 3 and len(data2) == 5
    post: _
    """
    h = DiameterHeader(version=ver, flags=hflags, command_code=cmd, application_id=app, hop_by_hop=hbh, end_to_end=e2e)
    a1 = DiameterAVP(code=code, vendor_id=vendor, flags=aflags, data=data)
    inner = OriginHostAVP(data2)
    g = FailedAvpAVP([inner, a1])
    m = DiameterMessage(header=h, avps=[a1, g])
    w1 = ref_avp(code, aflags, vendor, data)
    wg = ref_avp(279, 0x40, None, ref_avp(264, 0x40, None, data2) + w1)
    body = w1 + wg
    return m.dump() == ref_hdr(ver, hflags, cmd, app, hbh, e2e, 20 + len(body)) + body
