import chplug
from typing import Optional
from bromelia.base import DiameterMessage, DiameterHeader, DiameterAVP
from bromelia.avps import OriginHostAVP, FailedAvpAVP
from p01 import ref_avp, ref_hdr

def enc_header(ver: int, hflags: int, cmd: int, app: int, hbh: int, e2e: int) -> bool:
    """
    pre: 0 <= ver < 256 and 0 <= hflags < 256 and 0 <= cmd < 2**24 and 0 <= app < 2**32 and 0 <= hbh < 2**32 and 0 <= e2e < 2**32
    post: _
    """
    h = DiameterHeader(version=ver, flags=hflags, command_code=cmd, application_id=app, hop_by_hop=hbh, end_to_end=e2e)
    m = DiameterMessage(header=h, avps=[OriginHostAVP("abc"), DiameterAVP(code=7, vendor_id=9, flags=0x80, data=b"xyzzy")])
    body = ref_avp(264, 0x40, None, b"abc") + ref_avp(7, 0x80, 9, b"xyzzy")
    return m.dump() == ref_hdr(ver, hflags, cmd, app, hbh, e2e, 20 + len(body)) + body

def enc_avp(code: int, aflags: int, vendor: int, d0: int, d1: int, d2: int) -> bool:
    """
    pre: 0 <= code < 2**32 and 128 <= aflags < 256 and 0 <= vendor < 2**32
    pre: 0 <= d0 < 256 and 0 <= d1 < 256 and 0 <= d2 < 256
    post: _
    """
    data = bytes([d0, d1, d2])
    a1 = DiameterAVP(code=code, vendor_id=vendor, flags=aflags, data=data)
    g = FailedAvpAVP([OriginHostAVP("abcde"), a1])
    m = DiameterMessage(avps=[a1, g])
    w1 = ref_avp(code, aflags, vendor, data)
    wg = ref_avp(279, 0x40, None, ref_avp(264, 0x40, None, b"abcde") + w1)
    body = w1 + wg
    return m.dump() == ref_hdr(1, 0, 0, 0, 0, 0, 20 + len(body)) + body and m.header.get_length() == len(m.dump())
