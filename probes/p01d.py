import chplug
from bromelia.base import DiameterMessage, DiameterHeader, DiameterAVP
from bromelia.avps import OriginHostAVP, FailedAvpAVP
from p01 import ref_avp, ref_hdr

def enc_avp_alone(code: int, aflags: int, vendor: int, d0: int, d1: int, d2: int) -> bool:
    """
    pre: 0 <= code < 2**32 and 128 <= aflags < 256 and 0 <= vendor < 2**32
    pre: 0 <= d0 < 256 and 0 <= d1 < 256 and 0 <= d2 < 256
    post: _
    """
    data = bytes([d0, d1, d2])
    a1 = DiameterAVP(code=code, vendor_id=vendor, flags=aflags, data=data)
    return a1.dump() == ref_avp(code, aflags, vendor, data) and a1.get_length() == 15 and a1.get_padding_length() == 1

def enc_msg_choice(sel: int, aflags: int, d0: int, d1: int, d2: int) -> bool:
    """
    pre: 0 <= sel < 3 and 128 <= aflags < 256
    pre: 0 <= d0 < 256 and 0 <= d1 < 256 and 0 <= d2 < 256
    post: _
    """
    code, vendor = [(7, 9), (4000000000, 10415), (1433, 10415)][sel]
    data = bytes([d0, d1, d2])
    a1 = DiameterAVP(code=code, vendor_id=vendor, flags=aflags, data=data)
    g = FailedAvpAVP([OriginHostAVP("abcde"), a1])
    m = DiameterMessage(avps=[a1, g])
    w1 = ref_avp(code, aflags, vendor, data)
    wg = ref_avp(279, 0x40, None, ref_avp(264, 0x40, None, b"abcde") + w1)
    body = w1 + wg
    return m.dump() == ref_hdr(1, 0, 0, 0, 0, 0, 20 + len(body)) + body and m.header.get_length() == len(m.dump())
