import chplug
from bromelia.base import DiameterMessage, DiameterHeader, DiameterAVP
from bromelia import exceptions as E
LIB = tuple(v for v in vars(E).values() if isinstance(v, type) and issubclass(v, BaseException))

def avp_load_total(b: bytes) -> int:
    """
    pre: len(b) <= 16
    post: True
    """
    try:
        r = DiameterAVP.load(b)
    except LIB:
        return -1
    return len(r)

def msg_load_total(b: bytes) -> int:
    """
    pre: len(b) <= 32
    post: True
    """
    try:
        r = DiameterMessage.load(b)
    except LIB:
        return -1
    return len(r)
