import chplug
from crosshair.tracers import NoTracing
def f(b: bytes) -> int:
    """
    pre: len(b) <= 3
    post: True
    """
    with NoTracing():
        print("TYPE", type(b), type(getattr(b,'inner',None)), file=__import__('sys').stderr)
    try:
        return b[4]
    except IndexError as e:
        with NoTracing():
            print("ARGS", e.args, file=__import__('sys').stderr)
        return -1
