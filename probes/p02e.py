import chplug
from bromelia.base import DiameterMessage, DiameterHeader, DiameterAVP
from bromelia import exceptions as E
LIB = tuple(v for v in vars(E).values() if isinstance(v, type) and issubclass(v, BaseException))

def ref_avp(code: int, flags: int, vendor, data: bytes) -> bytes:
    hl = 12 if vendor is not None else 8
    n = hl + len(data)
    out = code.to_bytes(4, "big") + bytes([flags]) + n.to_bytes(3, "big")
    if vendor is not None:
        out += vendor.to_bytes(4, "big")
    out += data
    pad = (4 - n % 4) % 4
    return out + bytes(pad)

def rt_known(mp: int, data: bytes, hbh: int, cmdflags: int) -> bool:
    """
    pre: mp == 2
    pre: len(data) <= 5
    pre: 0 <= hbh < 2**32
    pre: 0 <= cmdflags < 256
    post: _
    """
    flags = mp * 32   # M and P bits, V clear
    wire_avp = ref_avp(264, flags, None, data)
    total = 20 + len(wire_avp)
    wire = bytes([1]) + total.to_bytes(3, "big") + bytes([cmdflags]) + (257).to_bytes(3, "big") + bytes(4) + hbh.to_bytes(4, "big") + bytes(4) + wire_avp
    msgs = DiameterMessage.load(wire)
    if len(msgs) != 1:
        return False
    m = msgs[0]
    a = m.avps[0]
    return (m.header.get_hop_by_hop() == hbh and m.header.get_flags() == cmdflags
            and a.get_code() == 264 and a.get_flags() == flags and a.data == data
            and m.dump() == wire)
