import chplug
from bromelia.base import DiameterMessage, DiameterHeader, DiameterAVP
from bromelia import exceptions as E
LIB = tuple(v for v in vars(E).values() if isinstance(v, type) and issubclass(v, BaseException))

def avp_load_total(rest: bytes) -> int:
    """
    pre: len(rest) == 12
    post: True
    """
    try:
        r = DiameterAVP.load(b'\x00\x00\x01\x08' + rest)
    except LIB:
        return -1
    return len(r)

def avp_load_total_unknown(rest: bytes) -> int:
    """
    pre: len(rest) == 12
    post: True
    """
    try:
        r = DiameterAVP.load(b'\xff\x00\x01\x08' + rest)
    except LIB:
        return -1
    return len(r)
