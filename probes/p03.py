import chplug
from bromelia.base import DiameterMessage, DiameterHeader, DiameterAVP
from bromelia import exceptions as E
LIB = tuple(v for v in vars(E).values() if isinstance(v, type) and issubclass(v, BaseException))

def raw32(hdr: bytes, rest: bytes) -> bool:
    """
    pre: len(hdr) == 20 and len(rest) == 8
    pre: hdr[1] == 0 and hdr[2] == 0 and hdr[3] >= 20
    post: _
    """
    b = hdr + b"\x00\x00\x01\x08" + rest
    try:
        r = DiameterMessage.load(b)
    except LIB + (IndexError,):
        return True
    return isinstance(r, list)
