import chplug
import selectors
from bromelia.transport import TcpClient
from bromelia.setup import Diameter, DiameterAssociation
from bromelia.base import DiameterMessage, DiameterHeader
from bromelia.avps import OriginHostAVP, UserNameAVP
from p06 import CFG

class HSocket:
    def __init__(self, chunks): self.chunks = list(chunks); self.closed = False
    def recv(self, n):
        return self.chunks.pop(0) if self.chunks else b""
    def close(self): self.closed = True
class HSelector:
    def __init__(self): self.reg = None
    def modify(self, sock, mask, data=None): self.reg = (mask, data)
    def register(self, sock, mask, data=None): self.reg = (mask, data)
    def unregister(self, sock): self.reg = None
    def get_map(self): return {}
class HEvent:
    def __init__(self, assoc, rounds): self.flag = False; self.assoc = assoc; self.rounds = rounds
    def set(self): self.flag = True
    def clear(self): self.flag = False
    def is_set(self): return self.flag
    def wait(self, timeout=None):
        self.rounds -= 1
        if self.rounds < 0: self.assoc._stop_threads = True
        return self.flag

import bromelia.transport as _T, types as _types
_T.random = _types.SimpleNamespace(choice=lambda seq: seq[0])
D = Diameter(config=dict(CFG))

def mk(hbh):
    return DiameterMessage(DiameterHeader(flags=0x80, command_code=316, application_id=16777251, hop_by_hop=hbh, end_to_end=1),
                           [OriginHostAVP("cli.example"), UserNameAVP("u")])

def frag(h1: int, h2: int, cut: int, drain_between: bool) -> bool:
    """
    pre: 0 <= h1 < 2**32 and 0 <= h2 < 2**32
    pre: 1 <= cut < 104
    post: _
    """
    m1, m2 = mk(h1), mk(h2)
    wire = m1.dump() + m2.dump()
    t = TcpClient("127.0.0.1", 3868)
    t.selector.close()
    t.sock = HSocket([wire[:cut], wire[cut:]]); t.selector = HSelector(); t.is_connected = True
    assoc = DiameterAssociation(D._connection, D._base); assoc.transport = t
    t.read()
    if drain_between:
        t._recv_data_available_real = t._recv_data_available
        ev = HEvent(assoc, 0); ev.flag = t._recv_data_available.is_set(); t._recv_data_available = ev
        assoc._stop_threads = False
        assoc.recv_message_from_queue()
    t.read()
    ev = HEvent(assoc, 0); ev.flag = True; t._recv_data_available = ev
    assoc._stop_threads = False
    assoc.recv_message_from_queue()
    got = []
    while not assoc._recv_messages.empty():
        got.append(assoc._recv_messages.get())
    return len(got) == 2 and got[0].dump() == m1.dump() and got[1].dump() == m2.dump() and not assoc.lock.locked()
