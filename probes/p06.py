import chplug
import selectors, time
from bromelia import statemachine as SM
from bromelia.setup import Diameter, DiameterAssociation
from bromelia.base import DiameterMessage, DiameterHeader, DiameterAVP
from bromelia.avps import *
from bromelia.constants import *
from bromelia.messages import DWR, DPR, CER
from bromelia import exceptions as E
LIB = tuple(v for v in vars(E).values() if isinstance(v, type) and issubclass(v, BaseException))
SM.time = type("T", (), {"sleep": staticmethod(lambda s: None)})

CFG = {"MODE": "SERVER", "APPLICATIONS": [], "TRANSPORT_TYPE": "TCP",
       "LOCAL_NODE_HOSTNAME": "srv.example", "LOCAL_NODE_REALM": "example",
       "LOCAL_NODE_IP_ADDRESS": "127.0.0.1", "LOCAL_NODE_PORT": 3868,
       "PEER_NODE_HOSTNAME": "cli.example", "PEER_NODE_REALM": "example",
       "PEER_NODE_IP_ADDRESS": "127.0.0.1", "PEER_NODE_PORT": 3868, "WATCHDOG_TIMEOUT": 30}

class HTransport:
    def __init__(self):
        self.is_connected = True; self._stop_threads = False; self.events = [1]
        self.tracking_events_count = 0; self.sent = []; self.mask = selectors.EVENT_READ
        self.closed = False
    def is_write_mode(self): return False
    def _set_selector_events_mask(self, mode, msg=None):
        if msg is not None: self.sent.append(msg)
    def close(self): self.closed = True; self.is_connected = False
    def test_connection(self): return True

D = Diameter(config=dict(CFG))

def ref_hdr(flags, cmd, hbh, e2e, total):
    return bytes([1]) + total.to_bytes(3,"big") + bytes([flags]) + cmd.to_bytes(3,"big") + bytes(4) + hbh.to_bytes(4,"big") + e2e.to_bytes(4,"big")

def dwr_echo(hbh: int, e2e: int, hbh2: int, e2e2: int, peer_ok: bool) -> bool:
    """
    pre: 0 <= hbh < 2**32 and 0 <= e2e < 2**32 and 0 <= hbh2 < 2**32 and 0 <= e2e2 < 2**32
    post: _
    """
    assoc = DiameterAssociation(D._connection, D._base)
    assoc.transport = HTransport(); assoc.state_is_active = True
    st = SM.Open(assoc)
    host = "cli.example" if peer_ok else "bad.example"
    for (h, e) in ((hbh, e2e), (hbh2, e2e2)):
        m = DiameterMessage(DiameterHeader(flags=0x80, command_code=280, hop_by_hop=h, end_to_end=e),
                            [OriginHostAVP(host), OriginRealmAVP("example")])
        assoc._recv_messages.put(m)
    st.run(); st.run()
    out = b"".join(assoc.transport.sent)
    if not peer_ok:
        return out == b"" and st.next_state == "Open"
    msgs = DiameterMessage.load(out)
    if len(msgs) != 2: return False
    return (msgs[0].header.get_hop_by_hop() == hbh and msgs[0].header.get_end_to_end() == e2e and
            msgs[1].header.get_hop_by_hop() == hbh2 and msgs[1].header.get_end_to_end() == e2e2 and
            not msgs[0].header.is_request() and msgs[0].header.get_command_code() == 280 and
            not assoc.lock.locked())
