import chplug
from typing import List
from bromelia.base import DiameterMessage, DiameterHeader, DiameterAVP
from bromelia.avps import OriginHostAVP, ResultCodeAVP, RouteRecordAVP
from bromelia import exceptions as E
LIB = tuple(v for v in vars(E).values() if isinstance(v, type) and issubclass(v, BaseException))

def alphabet():
    return [OriginHostAVP("a"), RouteRecordAVP("r1"), RouteRecordAVP("r1"), RouteRecordAVP("r2"),
            DiameterAVP(code=99999, flags=0, data=b"xyz")]

def coherent(m) -> bool:
    names = {k: v for k, v in m.__dict__.items() if "_avp" in k and k != "_avps"}
    lst = m.avps
    if len(names) != len(lst):
        return False
    for a in lst:
        if sum(1 for v in names.values() if v is a) != 1:
            return False
    return m.header.get_length() == len(m.dump())

def ops_seq(ops: List[int]) -> bool:
    """
    pre: len(ops) <= 4 and all(0 <= o < 12 for o in ops)
    post: _
    """
    m = DiameterMessage()
    al = alphabet()
    ref = []
    for o in ops:
        try:
            if o < 5:
                m.append(al[o]); ref.append(al[o])
            elif o < 10:
                tgt = al[o-5]
                keys = [k for k, v in m.__dict__.items() if v is tgt]
                if keys:
                    m.pop(keys[0])
                    ref = [x for x in ref if x is not tgt]
            elif o == 10:
                m.cleanup(); ref = []
            else:
                m.refresh()
        except LIB:
            return True
        if [id(x) for x in m.avps] != [id(x) for x in ref] or not coherent(m):
            return False
    return True
