import chplug
from typing import List
import coro
from bromelia import bromelia as BM
from bromelia.base import DiameterMessage, DiameterHeader

NAMES = ["wait", "set", "clear", "notify", "send_message", "handler_pending_answers",
         "remove_pending_answer", "set_outgoing_message", "insert_pending_answer"]

class HBarrier:
    def wait(self, timeout=None):
        yield
    def reset(self): pass

class HPending(BM.PendingAnswer):
    def __init__(self, msg):
        self.recv_event = coro.HEvent(); self.stop_event = coro.HEvent(); self.msg = msg
    wait = coro.coroutinize(BM.PendingAnswer.wait, NAMES)
    notify = coro.coroutinize(BM.PendingAnswer.notify, NAMES)

G = dict(vars(BM)); G["PendingAnswer"] = HPending

class HWorker:
    name = "w"
    def __init__(self):
        self.pending_answers = {}; self.sent = []
    def is_running(self): return True
    def set_outgoing_message(self, msg):
        self.sent.append(msg)
        yield
    def insert_pending_answer(self, p):
        BM.Worker.insert_pending_answer(self, p)
        yield
    is_pending_answer = BM.Worker.is_pending_answer
    get_pending_answer = BM.Worker.get_pending_answer
    remove_pending_answer = coro.coroutinize(BM.Worker.remove_pending_answer, NAMES)

import inspect, textwrap
_src = textwrap.dedent(inspect.getsource(BM.Bromelia.send_message))
_src = _src.replace("    worker.set_outgoing_message(msg)\n", "")
_src = _src.replace("        worker.insert_pending_answer(p_answer)\n", "        worker.insert_pending_answer(p_answer)\n        worker.set_outgoing_message(msg)\n")
open("/tmp/probe/h/fixed_sm.py","w").write("from bromelia.bromelia import *\n"+_src)
import fixed_sm
fixed_send_message = fixed_sm.send_message
class HApp(BM.Bromelia):
    def __init__(self):
        self.w = HWorker(); self.associations = {b"\x00\x00\x00\x01": self.w}
        self.send_threshold = HBarrier(); self.answer_threshold = HBarrier()
    send_message = coro.coroutinize(fixed_send_message, NAMES, G)
    handler_pending_answers = coro.coroutinize(BM.Bromelia.handler_pending_answers, NAMES, G)

def mk(flags, hbh, e2e):
    return DiameterMessage(DiameterHeader(flags=flags, command_code=316, application_id=1, hop_by_hop=hbh, end_to_end=e2e))

def one_caller(c: List[int], h1: int) -> bool:
    """
    pre: len(c) == 12 and all(0 <= x <= 1 for x in c)
    pre: h1 == 7
    post: _
    """
    app = HApp()
    req = mk(0x80, h1, 1); ans = mk(0, h1, 1)
    s = coro.Sched(c)
    s.spawn("C1", app.send_message(req))
    s.spawn("D1", app.handler_pending_answers(ans))
    s.threads[-1][2] = lambda: len(app.w.sent) > 0   # the answer cannot exist before the request was queued
    try:
        res = s.run()
    except coro.Prune:
        return True
    except coro.Deadlock as d:
        return False
    return res["C1"] is ans
