import chplug
from typing import List
from bromelia import base as BASE
from bromelia.base import DiameterRequest, DiameterAnswer
from crosshair.core import IgnoreAttempt

class _OS:
    seq = []; i = 0
    @classmethod
    def urandom(cls, n):
        if cls.i >= len(cls.seq): raise IgnoreAttempt("random source exhausted")
        v = cls.seq[cls.i]; cls.i += 1
        return v.to_bytes(4, "big")
BASE.os = _OS

def step(h0: int, h1: int, e0: int, draws: List[int]) -> bool:
    """
    pre: 0 <= h0 < 2**32 and 0 <= h1 < 2**32 and 0 <= e0 < 2**32 and h0 != h1
    pre: len(draws) == 5 and all(0 <= d < 2**32 for d in draws)
    post: _
    """
    H = [h0.to_bytes(4, "big"), h1.to_bytes(4, "big")]; E = [e0.to_bytes(4, "big")]
    DiameterRequest.hop_by_hop_identifiers = list(H); DiameterRequest.end_to_end_identifiers = list(E)
    _OS.seq = draws; _OS.i = 0
    r = DiameterRequest(command_code=316, application_id=16777251)
    hb, ee = r.header.hop_by_hop, r.header.end_to_end
    ok = hb not in H and ee not in E
    ok = ok and DiameterRequest.hop_by_hop_identifiers == H + [hb] and DiameterRequest.end_to_end_identifiers == E + [ee]
    before = _OS.i
    a = DiameterAnswer(command_code=316, application_id=16777251)
    r2 = DiameterRequest(header=r.header)
    return ok and _OS.i == before and DiameterRequest.hop_by_hop_identifiers == H + [hb]
