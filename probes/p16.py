import chplug
from bromelia import _internal_utils as IU
from bromelia._internal_utils import SessionHandler
from bromelia.avps import SessionIdAVP, OriginHostAVP
from bromelia.base import DiameterMessage

class _Diff:
    def __init__(self, s): self.days = s // 86400; self.seconds = s % 86400
class _DT:
    now = 0
    def __init__(self, *a): self.s = None
    @classmethod
    def utcnow(cls):
        x = cls(); x.s = cls.now; return x
    def __sub__(self, other): return _Diff(self.s)
class _Mod: datetime = _DT
IU.datetime = _Mod

def parse(b):
    parts = b.decode().split(";")
    return parts[0], int(parts[1]), int(parts[2])

def step(init0: int, id0: int, now: int, same: bool, via_update: bool) -> bool:
    """
    pre: 0 <= init0 <= now < 2**32 and 0 <= id0 < 1000
    post: _
    """
    SessionHandler.init = init0; SessionHandler.id = id0; _DT.now = now
    ident = "a" if same else "b"
    if via_update:
        m = DiameterMessage(); m.append(SessionIdAVP(b"a;1;1;bromelia")); m.append(OriginHostAVP("a"))
        m.update_avps({"origin_host": ident})
        data = m.session_id_avp.data
    else:
        data = SessionIdAVP(ident).data
    who, high, low = parse(data)
    fresh = high > init0 or (high == init0 and low > id0)
    inv = (high < SessionHandler.init) or (high == SessionHandler.init and low <= SessionHandler.id)
    return who == ident and fresh and inv
