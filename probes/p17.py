from bromelia.utils import *
from bromelia.avps import ResultCodeAVP
from bromelia.base import DiameterMessage, DiameterHeader

def fam3_int(n: int) -> bool:
    """
    pre: 0 <= n <= 4294967295
    post: _ == (n % 1000 != 0 and n // 1000 == 3)
    """
    return is_result_code_family_3xxx(n)

def fam3_obj(n: int) -> bool:
    """
    pre: 0 <= n <= 4294967295
    pre: n % 1000 != 0
    post: bool(_) == (n // 1000 == 3)
    """
    m = DiameterMessage()
    m.append(ResultCodeAVP(n))
    return is_3xxx_failure(m)
