import chplug
from bromelia.utils import *
from bromelia.avps import ResultCodeAVP, VendorIdAVP
from bromelia.base import DiameterMessage, DiameterHeader
from bromelia.exceptions import DiameterTypeError

def fam3_obj(n: int) -> bool:
    """
    pre: 0 <= n <= 4294967295
    pre: n % 1000 != 0
    post: bool(_) == (n // 1000 == 3)
    """
    m = DiameterMessage()
    m.append(ResultCodeAVP(n))
    return is_3xxx_failure(m)

def bit_test(w: int, bit: int) -> bool:
    """
    pre: 0 <= w <= 4294967295
    pre: 0 <= bit <= 31
    post: _ == ((w // 2**bit) % 2 == 1)
    """
    a = VendorIdAVP(w)
    return a.is_bit_set(bit)
