import chplug
from bromelia.utils import encode_to_tbcd, decode_from_tbcd

def tbcd_rt(s: str) -> bool:
    """
    pre: 1 <= len(s) <= 4
    pre: all(c in "0123456789" for c in s)
    post: _
    """
    e = encode_to_tbcd(s)
    return e is not None and decode_from_tbcd(e) == s
