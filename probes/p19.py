import chplug
from bromelia._internal_utils import _convert_config_to_connection_obj
from bromelia.exceptions import InvalidConfigKey, InvalidConfigValue

def valid_ip(s: str) -> bool:
    parts = s.split(".")
    if len(parts) != 4: return False
    for p in parts:
        if not (1 <= len(p) <= 3): return False
        for ch in p:
            if ch not in "0123456789": return False
        if len(p) > 1 and p[0] == "0": return False
        if int(p) > 255: return False
    return True

def cfg(ip: str, mode: str, wd: int) -> bool:
    """
    pre: len(ip) == 7
    pre: len(mode) <= 6
    post: _
    """
    c = {"MODE": mode, "APPLICATIONS": [], "TRANSPORT_TYPE": "TCP",
       "LOCAL_NODE_HOSTNAME": "a", "LOCAL_NODE_REALM": "b",
       "LOCAL_NODE_IP_ADDRESS": ip, "LOCAL_NODE_PORT": 3868,
       "PEER_NODE_HOSTNAME": "c", "PEER_NODE_REALM": "d",
       "PEER_NODE_IP_ADDRESS": "127.0.0.1", "PEER_NODE_PORT": 3868, "WATCHDOG_TIMEOUT": wd}
    ok = valid_ip(ip) and mode in ("CLIENT", "SERVER")
    try:
        conn = _convert_config_to_connection_obj(c)
    except (InvalidConfigKey, InvalidConfigValue):
        return not ok
    return ok and conn.local_node.ip_address == ip and conn.mode == mode and conn.watchdog_timeout == wd
