import chplug
from p19 import valid_ip
from bromelia._internal_utils import _convert_config_to_connection_obj
from bromelia.exceptions import InvalidConfigKey, InvalidConfigValue

def cfg_t(a: int, b: int, c: int, d: int, e: int, f: int) -> bool:
    """
    pre: all(0 <= x <= 9 for x in (a, b, c, d, e, f))
    post: _
    """
    ip = chr(48+a) + chr(48+b) + chr(48+c) + "." + chr(48+d) + "." + chr(48+e) + "." + chr(48+f)
    first = a*100 + b*10 + c
    ok = (a != 0) and first <= 255
    cfg = {"MODE": "CLIENT", "APPLICATIONS": [], "TRANSPORT_TYPE": "TCP",
       "LOCAL_NODE_HOSTNAME": "a", "LOCAL_NODE_REALM": "b",
       "LOCAL_NODE_IP_ADDRESS": ip, "LOCAL_NODE_PORT": 3868,
       "PEER_NODE_HOSTNAME": "c", "PEER_NODE_REALM": "d",
       "PEER_NODE_IP_ADDRESS": "127.0.0.1", "PEER_NODE_PORT": 3868, "WATCHDOG_TIMEOUT": 3}
    try:
        conn = _convert_config_to_connection_obj(cfg)
    except (InvalidConfigKey, InvalidConfigValue):
        return not ok
    return ok and conn.local_node.ip_address == ip
