import chplug
import struct
def f(n: int) -> bool:
    """
    pre: 0 <= n < 2**32
    post: _
    """
    b = struct.pack(">L", n)
    s = f"[{b.hex()}] something"
    d = {b.hex(): 1}
    return int.from_bytes(b, "big") == n
