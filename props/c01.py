"""C01 - serialised messages are exactly the RFC 6733 encoding of their content.

Encoded (real code): DiameterHeader.__init__/setters/dump, DiameterAVP.__init__/length/padding/dump,
DiameterMessage.__init__/append/extend/refresh/dump, DiameterRequest/Answer.__init__, every typed AVP
constructor (bromelia.types.*Type.__init__, GroupedType.append), _internal_utils.convert_to_*.
Oracle: the 25-line reference encoder in vf.h (ref_avp / ref_msg) fed the same logical content; the check is
one bytes equality per query (no decoding loops over symbolic buffers).
One dimension per query: header fields | generic AVP fields | data contents; lengths/shapes are grid parameters.
"""
from typing import List

from vf.driver import Q
from vf.h import REPLAY, P, reached, note, lib_errors, ref_avp, ref_msg
from vf import avpgen as G

from bromelia.base import DiameterAVP, DiameterHeader, DiameterMessage, DiameterRequest, DiameterAnswer
from bromelia.avps import (OriginHostAVP, VendorIdAVP, ResultCodeAVP, FailedAvpAVP, ExperimentalResultAVP,
                           ExperimentalResultCodeAVP, RouteRecordAVP)

PROPERTY = "C01"
LEVEL = "model_checking"
LIB = lib_errors()


def _fixed_avps(n):
    """n concrete AVPs with data lengths of different residues -> (objects, reference encodings)"""
    specs = [(OriginHostAVP, b"host.example"), (VendorIdAVP, (10415).to_bytes(4, "big")), (RouteRecordAVP, b"r1x")][:n]
    objs, refs = [], []
    for cls, data in specs:
        objs.append(cls(data))
        refs.append(G.ref_for(cls, data))
    return objs, refs


# ------------------------------------------------------------------ header
def hdr_int(version: int, flags: int, command: int, app: int, hbh: int, e2e: int) -> bool:
    """
    pre: 0 <= version <= 255 and 0 <= flags <= 255 and 0 <= command < 2**24
    pre: 0 <= app < 2**32 and 0 <= hbh < 2**32 and 0 <= e2e < 2**32
    post: _
    """
    objs, refs = _fixed_avps(P["navps"])
    h = DiameterHeader(version=version, flags=flags, command_code=command, application_id=app, hop_by_hop=hbh, end_to_end=e2e)
    if P.get("via") == "append":
        m = DiameterMessage(h)
        for o in objs:
            m.append(o)
    else:
        m = DiameterMessage(h, objs)
    wire = m.dump()
    reached()
    exp = ref_msg(version, flags, command, app, hbh, e2e, refs)
    if REPLAY: note(observed=wire.hex(), expected=exp.hex())
    return (wire == exp and m.__bytes__() == exp and m.get_length() == len(exp)
            and m.header.get_version() == version and m.header.get_flags() == flags and m.header.get_command_code() == command
            and m.header.get_application_id() == app and m.header.get_hop_by_hop() == hbh and m.header.get_end_to_end() == e2e)


def hdr_bytes(b: bytes) -> bool:
    """
    pre: len(b) == 17
    post: _
    """
    # the same fields given as bytes of the right width (version 1, flags 1, command 3, app 4, hbh 4, e2e 4)
    objs, refs = _fixed_avps(P["navps"])
    h = DiameterHeader(version=b[0:1], flags=b[1:2], command_code=b[2:5], application_id=b[5:9], hop_by_hop=b[9:13], end_to_end=b[13:17])
    m = DiameterMessage(h, objs)
    wire = m.dump()
    reached()
    total = 20 + sum(len(r) for r in refs)
    exp = b[0:1] + total.to_bytes(3, "big") + b[1:] + b"".join(refs)
    return wire == exp and m.get_length() == total


BITS = {0: ("set_request_bit", 0x80), 1: ("set_proxiable_bit", 0x40), 2: ("set_error_bit", 0x20), 3: ("set_retransmitted_bit", 0x10)}


def setters(flags0: int, ops: List[int]) -> bool:
    """
    pre: 0 <= flags0 <= 255 and len(ops) == P["n"] and all(0 <= o <= 7 for o in ops)
    post: _
    """
    # any setter sequence from any flag byte: legal calls change exactly their bit, illegal ones are rejected
    h = DiameterHeader(flags=flags0, command_code=257)
    model = flags0
    for o in ops:
        name, mask = BITS[o // 2]
        state = (o % 2) == 1
        cur = (model // mask) % 2 == 1
        legal = cur != state
        if name == "set_request_bit" and (model // 0x20) % 2 == 1:
            legal = False
        if name == "set_error_bit" and (model // 0x80) % 2 == 1:
            legal = False
        try:
            getattr(h, name)(state)
            if not legal:
                reached()
                return False
            model = model + mask if state else model - mask
        except LIB:
            if legal:
                reached()
                return False
    reached()
    return h.get_flags() == model and h.dump()[4] == model and len(h.dump()) == 20


def ctor(command: int, app: int, version: int) -> bool:
    """
    pre: 0 <= command < 2**24 and 0 <= app < 2**32 and 0 <= version <= 255
    post: _
    """
    # DiameterRequest / DiameterAnswer: the dumped header carries the fields as given; R reflects the class
    objs, refs = _fixed_avps(P["navps"])
    cls = DiameterRequest if P["cls"] == "request" else DiameterAnswer
    m = cls(version=version, command_code=command, application_id=app, avps=objs)
    wire = m.dump()
    reached()
    flags = m.header.get_flags()
    exp = ref_msg(version, flags, command, app, m.header.get_hop_by_hop(), m.header.get_end_to_end(), refs)
    return wire == exp and m.header.is_request() == (P["cls"] == "request") and m.get_length() == len(exp) and not m.header.is_error()


# ------------------------------------------------------------------ generic AVPs
def gavp(code: int, flags: int, vendor: int, hasv: bool, data: bytes) -> bool:
    """
    pre: 0 <= code < 2**32 and 0 <= flags <= 255 and 0 <= vendor < 2**32
    pre: len(data) == P["L"]
    pre: (flags >= 128) == hasv
    post: _
    """
    kind = P["kind"]
    if kind == "bytes":
        arg, exp_data = data, data
    elif kind == "str":
        arg = "".join(chr(32 + (x % 95)) for x in data)
        exp_data = bytes(32 + (x % 95) for x in data)
    else:
        raise KeyError(kind)
    v = vendor if hasv else None
    a = DiameterAVP(code=code, vendor_id=v, flags=flags, data=arg)
    wire = a.dump()
    reached()
    exp = ref_avp(code, flags, v, exp_data)
    if REPLAY: note(observed=wire.hex(), expected=exp.hex())
    hdr = 12 if hasv else 8
    return (wire == exp and a.__bytes__() == exp and a.get_length() == hdr + len(exp_data)
            and a.get_code() == code and a.get_flags() == flags and a.get_vendor_id() == v and len(wire) % 4 == 0)


def gavp_int(code: int, flags: int, vendor: int, hasv: bool, n: int) -> bool:
    """
    pre: 0 <= code < 2**32 and 0 <= flags <= 255 and 0 <= vendor < 2**32 and 0 <= n < 2**32
    pre: (flags >= 128) == hasv
    post: _
    """
    v = vendor if hasv else None
    a = DiameterAVP(code=code, vendor_id=v, flags=flags, data=n)
    wire = a.dump()
    reached()
    return wire == ref_avp(code, flags, v, n.to_bytes(4, "big")) and a.get_length() == (12 if hasv else 8) + 4


def gmsg(fl: List[int], blob: bytes, hbh: int) -> bool:
    """
    pre: len(fl) == len(P["avps"]) and all(0 <= f <= 127 for f in fl)
    pre: len(blob) == sum(a[2] for a in P["avps"]) and 0 <= hbh < 2**32
    post: _
    """
    # message of 1..3 generic AVPs: (code, vendor) concrete per position (append() hashes them), flags and data symbolic
    objs, refs, off = [], [], 0
    for (code, vendor, L), f in zip(P["avps"], fl):
        data = blob[off:off + L]
        off += L
        flags = f + (128 if vendor is not None else 0)
        objs.append(DiameterAVP(code=code, vendor_id=vendor, flags=flags, data=data))
        refs.append(ref_avp(code, flags, vendor, data))
    h = DiameterHeader(flags=0x80, command_code=316, application_id=16777251, hop_by_hop=hbh, end_to_end=7)
    via = P.get("via", "ctor")
    if via == "ctor":
        m = DiameterMessage(h, objs)
    elif via == "append":
        m = DiameterMessage(h)
        for o in objs:
            m.append(o)
    else:
        m = DiameterMessage(h)
        m.extend(objs)
    wire = m.dump()
    reached()
    exp = ref_msg(1, 0x80, 316, 16777251, hbh, 7, refs)
    if REPLAY: note(observed=wire.hex(), expected=exp.hex())
    return wire == exp and m.get_length() == len(exp) and len(exp) % 4 == 0


# ------------------------------------------------------------------ dictionary classes
def cls_value(ints: List[int], blob: bytes) -> bool:
    """
    pre: len(blob) == P["nb"] and G.ints_ok(ints, P["ranges"])
    post: _
    """
    cls = G.by_name(P["cls"])
    lv = G.Leaves(ints, blob)
    inst, rdata = G.build(cls, lv, L=P["L"], max_depth=P.get("depth", 4), opt=P.get("opt", False), intpath=P.get("intpath", True))
    wire = inst.dump()
    reached()
    exp = G.ref_for(cls, rdata)
    if REPLAY: note(cls=P["cls"], observed=wire.hex(), expected=exp.hex())
    code, vendor, flags, _ = G.expected(cls)
    ok = wire == exp and inst.get_code() == code and inst.get_vendor_id() == vendor and inst.get_flags() == flags
    if P.get("in_msg"):
        m = DiameterMessage(DiameterHeader(command_code=272, application_id=4), [inst])
        ok = ok and m.dump() == ref_msg(1, 0, 272, 4, 0, 0, [exp]) and m.get_length() == 20 + len(exp)
    return ok


def nested(fl: List[int], blob: bytes) -> bool:
    """
    pre: len(fl) == 3 and all(0 <= f <= 127 for f in fl)
    pre: len(blob) == sum(P["Ls"])
    post: _
    """
    # Failed-AVP [ generic(vendor), Experimental-Result [Vendor-Id, Experimental-Result-Code], Failed-AVP [ Failed-AVP [ generic ] ] ]
    L0, L1, L2 = P["Ls"]
    d0, d1, d2 = blob[:L0], blob[L0:L0 + L1], blob[L0 + L1:]
    g0 = DiameterAVP(code=777, vendor_id=10415, flags=128 + fl[0], data=d0)
    r0 = ref_avp(777, 128 + fl[0], 10415, d0)
    er = ExperimentalResultAVP([VendorIdAVP(10415), ExperimentalResultCodeAVP(5001)])
    r_er = G.ref_for(ExperimentalResultAVP, G.ref_for(VendorIdAVP, (10415).to_bytes(4, "big")) + G.ref_for(ExperimentalResultCodeAVP, (5001).to_bytes(4, "big")))
    g1 = DiameterAVP(code=888, flags=fl[1], data=d1)
    r1 = ref_avp(888, fl[1], None, d1)
    g2 = DiameterAVP(code=999, vendor_id=5, flags=128 + fl[2], data=d2)
    r2 = ref_avp(999, 128 + fl[2], 5, d2)
    depth = P["depth"]
    inner, r_inner = FailedAvpAVP([g1, g2]), G.ref_for(FailedAvpAVP, r1 + r2)
    for _ in range(depth - 2):
        inner, r_inner = FailedAvpAVP([inner]), G.ref_for(FailedAvpAVP, r_inner)
    top = FailedAvpAVP([g0, er, inner])
    r_top = G.ref_for(FailedAvpAVP, r0 + r_er + r_inner)
    m = DiameterMessage(DiameterHeader(command_code=280), [top])
    wire = m.dump()
    reached()
    exp = ref_msg(1, 0, 280, 0, 0, 0, [r_top])
    if REPLAY: note(observed=wire.hex(), expected=exp.hex())
    return wire == exp and top.dump() == r_top and m.get_length() == len(exp)


def twins(fl: List[int], blob: bytes) -> bool:
    """
    pre: len(fl) == 6 and all(0 <= f <= 127 for f in fl)
    pre: len(blob) == 6 * P["L"]
    post: _
    """
    # same-code siblings whose flags and data are free: EQUAL siblings (RFC 6733 "* [ AVP ]") arise as solver cases, at message
    # level, inside a Grouped AVP and inside a nested one; two Route-Records with free (possibly equal) values as well
    L = P["L"]
    d = [blob[i * L:(i + 1) * L] for i in range(6)]
    mk = lambda i: DiameterAVP(code=888, flags=fl[i], data=d[i])
    rf = lambda i: ref_avp(888, fl[i], None, d[i])
    inner = FailedAvpAVP([mk(2), mk(3)])
    top = FailedAvpAVP([mk(0), mk(1), inner])
    r_top = G.ref_for(FailedAvpAVP, rf(0) + rf(1) + G.ref_for(FailedAvpAVP, rf(2) + rf(3)))
    m = DiameterMessage(DiameterHeader(command_code=280), [top, mk(4), mk(5)])
    wire = m.dump()
    reached()
    exp = ref_msg(1, 0, 280, 0, 0, 0, [r_top, rf(4), rf(5)])
    if REPLAY: note(observed=wire.hex(), expected=exp.hex())
    return wire == exp and top.dump() == r_top and m.get_length() == len(exp) and len(top.avps) == 3 and len(m.avps) == 3


def derived(fl: List[int], blob: bytes, hbh: int) -> bool:
    """
    pre: len(fl) == 2 and all(0 <= f <= 127 for f in fl) and len(blob) == 2 * P["L"] and 0 <= hbh < 2**32
    post: _
    """
    # messages obtained through the other public constructors: DiameterMessage.convert() of a generic and of a typed message,
    # .copy(), DiameterAVP.convert(): each must serialise to the RFC 6733 encoding of the same content, and the source
    # object must still do so afterwards
    L = P["L"]
    d0, d1 = blob[:L], blob[L:]
    a0, a1 = DiameterAVP(code=888, flags=fl[0], data=d0), DiameterAVP(code=889, vendor_id=10415, flags=128 + fl[1], data=d1)
    r0, r1 = ref_avp(888, fl[0], None, d0), ref_avp(889, 128 + fl[1], 10415, d1)
    src = DiameterMessage(DiameterHeader(command_code=280, hop_by_hop=hbh), [a0, a1])
    exp = ref_msg(1, 0, 280, 0, hbh, 0, [r0, r1])
    kind = P["kind"]
    if kind == "convert":
        out = DiameterMessage.convert(src)
    elif kind == "copy":
        out = src.copy()
    elif kind == "convert_request":
        src = DiameterRequest(header=DiameterHeader(command_code=280, hop_by_hop=hbh, flags=0x80), avps=[a0, a1])
        # (which command flags the request constructor derives from the Application-ID is the `ctor` query's business)
        exp = ref_msg(1, src.header.get_flags(), 280, 0, hbh, 0, [r0, r1])
        out = DiameterMessage.convert(src)
    else:
        g = DiameterAVP.convert(OriginHostAVP(d0)) if L else DiameterAVP.convert(a0)
        rg = ref_avp(264, 0x40, None, d0) if L else r0
        reached()
        return g.dump() == rg and type(g) is DiameterAVP
    wire = out.dump()
    reached()
    if REPLAY: note(kind=kind, observed=wire.hex(), expected=exp.hex(), source_after=src.dump().hex())
    return (wire == exp and out.get_length() == len(exp) and src.dump() == exp and src.get_length() == len(exp)
            and type(out) is (DiameterMessage if kind != "copy" else type(src)))


def after_rejection(fl: List[int], blob: bytes) -> bool:
    """
    pre: len(fl) == 3 and all(0 <= f <= 127 for f in fl) and len(blob) == 3 * P["L"]
    post: _
    """
    # a message whose construction met REJECTED calls on the way (a batch with a non-AVP element, a list assignment with one):
    # whatever AVPs the message holds afterwards, its serialisation is the RFC 6733 encoding of exactly those
    L = P["L"]
    d = [blob[i * L:(i + 1) * L] for i in range(3)]
    avps = [DiameterAVP(code=888 + i, flags=fl[i], data=d[i]) for i in range(3)]
    refs = {id(a): ref_avp(888 + i, fl[i], None, d[i]) for i, a in enumerate(avps)}
    m = DiameterMessage(DiameterHeader(command_code=280))
    kind = P["kind"]
    try:
        if kind == "extend":
            m.extend([avps[0], "not an AVP"])
        elif kind == "setlist":
            m.avps = [avps[0], 5]
        else:
            m.append(None)
    except LIB:
        pass
    m.append(avps[1])
    m.extend([avps[2]])
    wire = m.dump()
    reached()
    held = list(m.avps)
    if any(id(a) not in refs for a in held):
        return False
    exp = ref_msg(1, 0, 280, 0, 0, 0, [refs[id(a)] for a in held])
    if REPLAY: note(kind=kind, held=len(held), observed=wire.hex(), expected=exp.hex())
    return wire == exp and m.get_length() == len(exp)


def identity_sweep():
    """native (concrete) sweep: every dictionary class instantiated with one in-domain value dumps the
    reference encoding for its frozen (code, vendor, flags).  Table comparison, not a solver query."""
    bad = []
    for cls in G.classes():
        try:
            inst, rdata = G.build(cls, G.Leaves(), L=3)
            if inst.dump() != G.ref_for(cls, rdata):
                bad.append(cls.__name__)
        except BaseException as e:     # noqa
            bad.append(f"{cls.__name__}: {type(e).__name__}")
    if bad:
        return {"verdict": "cex", "detail": f"classes whose encoding differs from the reference dictionary: {bad[:8]}",
                "call": str(bad[:8]), "reproduced": True, "replay": {"verdict": "fails", "classes": bad}}
    return {"verdict": "proved", "obligation": f"{len(G.classes())} classes, one concrete value each (enumeration, not solver)"}


def _select_classes(tier):
    allc = G.classes()
    if tier != "quick":
        return allc
    keep, seen = [], set()
    special = {"MsisdnAVP", "StnSrAVP", "EapPayloadAVP", "FramedIpAddressAVP", "SessionIdAVP", "AcctMultiSessionIdAVP"}
    for c in allc:
        t = G.type_of(c)
        fam = (t, c.vendor_id is not None)
        if t == "Grouped" or c.__name__ in special or fam not in seen:
            keep.append(c)
            seen.add(fam)
    return keep


def queries(tier, seed):
    t = 90 if tier == "quick" else 600
    qs = []
    for n in (0, 1, 3):
        qs.append(Q(f"hdr/int/n{n}", "hdr_int", {"navps": n}, cto=t, pto=t, what=f"all header field values (ints), {n} concrete AVPs"))
    qs.append(Q("hdr/int/append/n3", "hdr_int", {"navps": 3, "via": "append"}, cto=t, pto=t, what="same, AVPs appended one by one"))
    qs.append(Q("hdr/bytes/n1", "hdr_bytes", {"navps": 1}, cto=t, pto=t, what="header fields given as bytes"))
    for n in ((1, 2) if tier == "quick" else (1, 2, 3)):
        qs.append(Q(f"setters/n{n}", "setters", {"n": n}, cto=t, pto=t, what=f"every sequence of {n} flag setter calls from every flag byte"))
    for c in ("request", "answer"):
        qs.append(Q(f"ctor/{c}", "ctor", {"cls": c, "navps": 2}, cto=t, pto=t, what=f"Diameter{c.title()} constructor, all command/app/version values"))
    for L in (range(0, 6) if tier == "quick" else range(0, 10)):
        qs.append(Q(f"gavp/bytes/L{L}", "gavp", {"L": L, "kind": "bytes"}, cto=t, pto=t,
                    what=f"generic AVP: code, flags, vendor, V-consistency, {L} data bytes all symbolic"))
    for L in ((1, 3) if tier == "quick" else (0, 1, 2, 3, 4, 5)):
        qs.append(Q(f"gavp/str/L{L}", "gavp", {"L": L, "kind": "str"}, cto=t, pto=t, what=f"generic AVP, str data of {L} printable chars"))
    qs.append(Q("gavp/int", "gavp_int", {}, cto=t, pto=t, what="generic AVP, int data (all 32-bit values)"))
    # messages of generic AVPs: (code, vendor, L) per position; every residue, vendor x residue 3, same-name AVPs
    shapes = [[[900, None, 1]], [[901, 10415, 3]], [[900, None, 2], [901, 10415, 3], [900, None, 5]],
              [[282, None, 3], [282, None, 3], [282, None, 6]], [[901, 10415, 0], [900, None, 4], [902, 99, 7]]]
    if tier != "quick":
        shapes += [[[900, v, a], [901, None if v else 7, b], [282, None, c]] for a in range(4) for b in range(4) for c in (1, 2) for v in (None, 10415)]
    for i, sh in enumerate(shapes):
        for via in (("ctor", "append") if (tier != "quick" or i in (2, 3)) else ("ctor",)):
            tag = "_".join(f"{c}v{'y' if v else 'n'}L{L}" for c, v, L in sh)
            qs.append(Q(f"gmsg/{via}/{tag}", "gmsg", {"avps": sh, "via": via}, cto=t, pto=t,
                        what=f"message of generic AVPs {sh} built via {via}: flags (M,P,reserved) and data symbolic"))
    qs.append(Q("gmsg/extend/mixed", "gmsg", {"avps": shapes[2], "via": "extend"}, cto=t, pto=t, what="same via extend()"))
    # dictionary classes
    for idx, cls in enumerate(_select_classes(tier)):
        ty = G.type_of(cls)
        Ls = [idx % 4 + 1] if tier == "quick" else ([0, 1, 2, 3, 4, 7] if ty in G.OCTET_LIKE else [1, 3] if ty == "Grouped" else [3])
        for L in Ls:
            for intpath in ((True, False) if (ty in ("Unsigned32", "Unsigned64") and (tier != "quick" or idx % 3 == 0)) else (True,)):
                plan = G.plan(cls, L=L, intpath=intpath)
                prm = {"cls": cls.__name__, "L": L, "intpath": intpath, "nb": plan["nb"], "ranges": plan["ranges"], "in_msg": ty == "Grouped"}
                qs.append(Q(f"cls/{cls.__name__}/L{L}{'' if intpath else '/bytes'}", "cls_value", prm, cto=t, pto=t,
                            what=f"{cls.__name__} ({ty}): {plan['ni']} symbolic ints, {plan['nb']} symbolic bytes"))
        if ty == "Grouped" and tier != "quick" and getattr(cls, "optionals", None):
            plan = G.plan(cls, L=2, opt=True)
            qs.append(Q(f"cls/{cls.__name__}/opt", "cls_value", {"cls": cls.__name__, "L": 2, "opt": True, "nb": plan["nb"], "ranges": plan["ranges"], "in_msg": True},
                        cto=t, pto=t, what=f"{cls.__name__} with two optional members"))
    combos = [([3, 1, 2], 3)] if tier == "quick" else [([a, b, c], d) for a in range(4) for b in (1, 3) for c in (0, 2) for d in (3, 4)]
    for Ls, depth in combos:
        qs.append(Q(f"nested/d{depth}/L{'_'.join(map(str, Ls))}", "nested", {"Ls": Ls, "depth": depth}, cto=t, pto=t,
                    what=f"Grouped nesting depth {depth}, leaf lengths {Ls}, leaf flags and data symbolic"))
    for L in ((1, 4) if tier == "quick" else (0, 1, 2, 3, 4, 5)):
        qs.append(Q(f"twins/L{L}", "twins", {"L": L}, cto=t, pto=t,
                    what=f"six same-code generic AVPs ({L} data bytes each, flags and data symbolic, so equal siblings arise) at message level, in a Grouped AVP and in a nested one"))
    for kind in ("convert", "copy", "convert_request", "avp_convert"):
        for L in ((3,) if tier == "quick" else (0, 1, 3, 4)):
            qs.append(Q(f"derived/{kind}/L{L}", "derived", {"kind": kind, "L": L}, cto=t, pto=t,
                        what=f"message obtained by {kind} of a message of two generic AVPs ({L} data bytes, flags/data/Hop-by-Hop symbolic): encoding and Message Length of result AND source"))
    for kind in ("extend", "setlist", "append"):
        qs.append(Q(f"after_rejection/{kind}/L3", "after_rejection", {"kind": kind, "L": 3}, cto=t, pto=t,
                    what=f"a rejected {kind} call (non-AVP element) followed by further appends: the message serialises exactly what it holds"))
    qs.append(Q("native/identity_sweep", "identity_sweep", engine="py", cto=60, what="all classes: concrete value vs frozen dictionary"))
    return qs


BOUNDS = ["header: every value of every field (ints; bytes of the right width)", "generic AVP: every code/flags/vendor, data length 0..5 (quick) / 0..9",
          "messages of <= 3 generic AVPs, (code, vendor) concrete per position, every data residue", "dictionary classes: quick = all Grouped + "
          "custom-logic classes + one per (type, vendor-ness); thorough = all classes x length residues", "nesting depth 3 (quick) / 4", "same-code siblings with free flags/data (equal siblings included) at three levels", "messages derived by convert() / copy() / DiameterAVP.convert()"]
OUTSIDE = ["messages >= 2^24 bytes", "non-ASCII str data (UTF-8 encoder is CPython's)", "DiameterURI values beyond the fixed list",
           "generic AVPs whose V flag disagrees with vendor presence (excluded by the statement)", "typed command classes: see C09 (same oracle)"]
ASSUMPTIONS = ["reference encoder vf.h.ref_avp/ref_msg transcribes RFC 6733 sections 3 and 4.1", "default flags/code/vendor per class from /verif/ref/avp_dictionary.json"]
