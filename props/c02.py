"""C02 - decoding preserves every field on the wire and re-encodes byte-identically.

Encoded (real code): DiameterMessage.load, DiameterHeader.load, DiameterAVP.load, DiameterAvpLoader.get_avp_class,
every typed constructor on the bytes path, GroupedType.__init__ (member re-parse), then dump().
Inputs come from the reference encoder (vf.h.ref_avp/ref_msg) applied to a symbolic logical description - nothing of
bromelia is used to build them.  Structure (which AVPs, lengths, nesting, message count) is a grid parameter, contents
(all header fields, M/P/reserved flag bits, data bytes, leaf values) are solver variables.
Known finding (open): a KNOWN dictionary AVP received with flag bits different from its class default is re-flagged.
"""
from typing import List

from vf.driver import Q
from vf.h import REPLAY, P, reached, note, lib_errors, ref_avp, ref_msg, admit
from vf import avpgen as G

from bromelia.base import DiameterAVP, DiameterMessage

PROPERTY = "C02"
LEVEL = "model_checking"
LIB = lib_errors()


def _load(wire):
    """a well-formed stream must decode: a library error is a violation here, not an escape hatch"""
    try:
        return DiameterMessage.load(wire)
    except LIB as e:
        if REPLAY: note(raised=f"{type(e).__name__}: {e}")
        return None


def _sym(wire):
    """keep concrete positions concrete: a bytes object over a python list of ints / symbolic ints"""
    return bytes(list(wire))


def header(h: bytes) -> bool:
    """
    pre: len(h) == 17
    post: _
    """
    # every header byte except the Message Length is free; two concrete AVPs follow
    a1 = ref_avp(264, 0x40, None, b"host.example")
    a2 = ref_avp(99999, 0x21, None, b"xyz")
    total = 20 + len(a1) + len(a2)
    wire = _sym(h[0:1] + total.to_bytes(3, "big") + h[1:] + a1 + a2)
    msgs = _load(wire)
    reached()
    if msgs is None:
        return False
    if len(msgs) != 1:
        return False
    m = msgs[0]
    hd = m.header
    return (hd.version == h[0:1] and hd.flags == h[1:2] and hd.command_code == h[2:5] and hd.application_id == h[5:9]
            and hd.hop_by_hop == h[9:13] and hd.end_to_end == h[13:17] and hd.get_length() == total
            and hd.get_version() == h[0] and hd.get_flags() == h[1] and len(m.avps) == 2 and m.dump() == wire)


def stream(ids: List[int], fl: List[int], blob: bytes) -> bool:
    """
    pre: len(ids) == 2 * len(P["msgs"]) and all(0 <= x < 2**32 for x in ids)
    pre: len(fl) == sum(len(m) for m in P["msgs"]) and all(0 <= f <= 127 for f in fl)
    pre: len(blob) == sum(a[2] for m in P["msgs"] for a in m)
    post: _
    """
    # n concatenated messages of unknown AVPs: (code, vendor, L) concrete per position, ids / flags / data symbolic
    wires, descr, off, k = [], [], 0, 0
    for i, m in enumerate(P["msgs"]):
        avps, d = [], []
        for code, vendor, L in m:
            data = blob[off:off + L]
            off += L
            flags = fl[k] + (128 if vendor is not None else 0)
            k += 1
            avps.append(ref_avp(code, flags, vendor, data))
            d.append((code, flags, vendor, data))
        wires.append(ref_msg(1, 0x80 if i % 2 == 0 else 0x40, 300 + i, 16777251, ids[2 * i], ids[2 * i + 1], avps))
        descr.append(d)
    wire = _sym(b"".join(wires))
    msgs = _load(wire)
    reached()
    if msgs is None:
        return False
    if REPLAY: note(wire=wire.hex(), decoded=len(msgs))
    if len(msgs) != len(descr):
        return False
    ok = True
    for i, (m, d) in enumerate(zip(msgs, descr)):
        ok = ok and m.header.get_hop_by_hop() == ids[2 * i] and m.header.get_end_to_end() == ids[2 * i + 1]
        ok = ok and m.header.get_command_code() == 300 + i and m.header.get_length() == len(wires[i]) and len(m.avps) == len(d)
        if not ok:
            return False
        for a, (code, flags, vendor, data) in zip(m.avps, d):
            ok = ok and type(a) is DiameterAVP and a.get_code() == code and a.get_flags() == flags and a.get_vendor_id() == vendor
            ok = ok and (a.data == data if len(data) else (a.data is None or len(a.data) == 0)) and a.get_length() == (12 if vendor is not None else 8) + len(data)
        ok = ok and m.dump() == wires[i]
    return ok


def known(ints: List[int], blob: bytes, hbh: int) -> bool:
    """
    pre: len(blob) == P["nb"] and G.ints_ok(ints, P["ranges"]) and 0 <= hbh < 2**32
    post: _
    """
    # one dictionary class carrying its default flags, value symbolic; an unknown AVP before and after it
    cls = G.by_name(P["cls"])
    lv = G.Leaves(ints, blob)
    v, rdata = G.value(cls, lv, L=P["L"], max_depth=3)
    mid = G.ref_for(cls, rdata)
    pre_ = ref_avp(99999, 0x40, None, b"ab")
    post = ref_avp(99998, 0x80, 9, b"c")
    msg_wire = ref_msg(1, 0xc0, 316, 16777251, hbh, 5, [pre_, mid, post])
    wire = _sym(msg_wire)
    msgs = _load(wire)
    reached()
    if msgs is None:
        return False
    if len(msgs) != 1 or len(msgs[0].avps) != 3:
        return False
    a = msgs[0].avps[1]
    code, vendor, flags, _ = G.expected(cls)
    if REPLAY: note(cls=P["cls"], wire=wire.hex(), got_type=type(a).__name__, redump=msgs[0].dump().hex())
    ok = type(a) is cls and a.get_code() == code and a.get_vendor_id() == vendor and a.get_flags() == flags and a.data == rdata
    ok = ok and type(msgs[0].avps[0]) is DiameterAVP and type(msgs[0].avps[2]) is DiameterAVP
    ok = ok and msgs[0].header.get_hop_by_hop() == hbh and msgs[0].dump() == wire and a.dump() == mid
    if G.type_of(cls) == "Grouped":
        # members are materialised too, in order, and re-encode to the same bytes
        ok = ok and b"".join(x.dump() for x in a.avps) == rdata
    return ok


def known_flags(fl: int, data: bytes) -> bool:
    """
    pre: 0 <= fl <= 127 and len(data) == P["L"]
    pre: admit(fl=fl)
    post: _
    """
    # a known AVP received with ANY M/P/reserved flag bits (V tied to the class's vendor): flags must survive decoding
    cls = G.by_name(P["cls"])
    code, vendor, dflags, _ = G.expected(cls)
    flags = fl + (128 if vendor is not None else 0)
    one = ref_avp(code, flags, vendor, data)
    wire = _sym(ref_msg(1, 0x40, 272, 4, 1, 2, [one]))
    msgs = _load(wire)
    reached()
    if msgs is None:
        return False
    a = msgs[0].avps[0]
    if REPLAY: note(cls=P["cls"], wire_flags=flags, decoded_flags=a.get_flags(), redump_equal=msgs[0].dump() == wire)
    return type(a) is cls and a.get_flags() == flags and a.data == data and msgs[0].dump() == wire


def nested_unknown(fl: List[int], blob: bytes) -> bool:
    """
    pre: len(fl) == 3 and all(0 <= f <= 127 for f in fl) and len(blob) == sum(P["Ls"])
    post: _
    """
    # Failed-AVP [ unknown, Failed-AVP [ unknown(vendor), unknown ] ]: member flags/data survive the Grouped re-parse
    L0, L1, L2 = P["Ls"]
    d0, d1, d2 = blob[:L0], blob[L0:L0 + L1], blob[L0 + L1:]
    from bromelia.avps import FailedAvpAVP
    m0 = ref_avp(7001, fl[0], None, d0)
    m1 = ref_avp(7002, 128 + fl[1], 10415, d1)
    m2 = ref_avp(7003, fl[2], None, d2)
    inner = G.ref_for(FailedAvpAVP, m1 + m2)
    outer = G.ref_for(FailedAvpAVP, m0 + inner)
    wire = _sym(ref_msg(1, 0, 280, 0, 9, 9, [outer]))
    msgs = _load(wire)
    reached()
    if msgs is None:
        return False
    top = msgs[0].avps[0]
    ok = type(top) is FailedAvpAVP and len(top.avps) == 2 and type(top.avps[0]) is DiameterAVP and type(top.avps[1]) is FailedAvpAVP
    if not ok:
        return False
    inn = top.avps[1]
    ok = ok and top.avps[0].get_flags() == fl[0] and top.avps[0].data == d0 if L0 else ok
    ok = ok and len(inn.avps) == 2 and inn.avps[0].get_flags() == 128 + fl[1] and inn.avps[0].get_vendor_id() == 10415
    ok = ok and inn.avps[1].get_flags() == fl[2] and inn.avps[0].get_code() == 7002
    return ok and msgs[0].dump() == wire and top.dump() == outer


def twins(fl: List[int], blob: bytes) -> bool:
    """
    pre: len(fl) == 6 and all(0 <= f <= 127 for f in fl) and len(blob) == 6 * P["L"]
    post: _
    """
    # same-code unknown siblings with free flags and data - byte-identical siblings arise as solver cases - at message level,
    # inside a Failed-AVP and inside a nested one: every occurrence survives the decode and the re-encoding is identical
    from bromelia.avps import FailedAvpAVP
    L = P["L"]
    d = [blob[i * L:(i + 1) * L] for i in range(6)]
    rf = lambda i: ref_avp(7001, fl[i], None, d[i])
    inner = G.ref_for(FailedAvpAVP, rf(2) + rf(3))
    outer = G.ref_for(FailedAvpAVP, rf(0) + rf(1) + inner)
    wire = _sym(ref_msg(1, 0, 280, 0, 9, 9, [outer, rf(4), rf(5)]))
    msgs = _load(wire)
    reached()
    if msgs is None or len(msgs) != 1:
        return False
    m = msgs[0]
    if REPLAY: note(top=len(m.avps), members=len(m.avps[0].avps) if m.avps else None, redump_equal=m.dump() == wire)
    if len(m.avps) != 3 or type(m.avps[0]) is not FailedAvpAVP or len(m.avps[0].avps) != 3:
        return False
    g = m.avps[0]
    ok = g.avps[0].data == d[0] and g.avps[1].data == d[1] and g.avps[0].get_flags() == fl[0] and g.avps[1].get_flags() == fl[1] if L else True
    ok = ok and type(g.avps[2]) is FailedAvpAVP and len(g.avps[2].avps) == 2
    ok = ok and m.avps[1].get_flags() == fl[4] and m.avps[2].get_flags() == fl[5]
    return ok and m.dump() == wire and g.dump() == outer and m.header.get_length() == len(wire)


def deep(fl: int, data: bytes) -> bool:
    """
    pre: 0 <= fl <= 127 and len(data) == P["L"]
    post: _
    """
    # Failed-AVP nested to depth D around one unknown leaf (flags / data symbolic): well-formed at any depth
    from bromelia.avps import FailedAvpAVP
    leaf = ref_avp(7001, fl, None, data)
    inner = leaf
    for _ in range(P["depth"]):
        inner = G.ref_for(FailedAvpAVP, inner)
    wire = _sym(ref_msg(1, 0, 280, 0, 9, 9, [inner]))
    msgs = _load(wire)
    reached()
    if msgs is None or len(msgs) != 1 or len(msgs[0].avps) != 1:
        return False
    a = msgs[0].avps[0]
    for _ in range(P["depth"]):
        if type(a) is not FailedAvpAVP or len(a.avps) != 1:
            return False
        a = a.avps[0]
    if REPLAY: note(depth=P["depth"], leaf_flags=a.get_flags(), redump_equal=msgs[0].dump() == wire)
    return type(a) is DiameterAVP and a.get_flags() == fl and (a.data == data or P["L"] == 0) and msgs[0].dump() == wire


def _select(tier):
    allc = G.classes()
    if tier != "quick":
        return allc
    keep, seen = [], set()
    special = {"MsisdnAVP", "StnSrAVP", "EapPayloadAVP", "FramedIpAddressAVP", "SessionIdAVP", "AcctMultiSessionIdAVP", "RedirectHostAVP"}
    for c in allc:
        fam = (G.type_of(c), c.vendor_id is not None)
        if G.type_of(c) == "Grouped" or c.__name__ in special or fam not in seen:
            keep.append(c)
            seen.add(fam)
    return keep


def queries(tier, seed):
    t = 90 if tier == "quick" else 600
    qs = [Q("header", "header", {}, cto=t, pto=t, what="all 17 free header bytes")]
    shapes = {"one": [[[9001, None, 3]]],
              "two_msgs": [[[9001, None, 1], [9002, 10415, 2]], [[9003, None, 0]]],
              "three_msgs": [[[9001, None, 4]], [[9002, 99, 3], [9001, None, 5]], [[9004, None, 2]]],
              "residues": [[[9001, None, 0], [9002, 7, 1], [9003, None, 2], [9004, 7, 3]]],
              # (vendor, code) pairs that are unknown although the code alone is a dictionary code: an unknown vendor, a known
              # vendor whose dictionary lacks the code, vendor 0 spelled out, and a 3GPP code without / with another vendor
              "code_collisions": [[[264, 193, 3], [264, 10415, 2], [1407, None, 4], [1407, 193, 1]]],
              "empty_data": [[[9001, None, 0], [9002, 10415, 0]], [[264, 5, 0]]]}
    if tier != "quick":
        for a in range(4):
            for b in range(4):
                shapes[f"r{a}{b}"] = [[[9001, None, a], [9002, 10415, b]], [[9003, None, (a + b) % 4]]]
    for name, msgs in shapes.items():
        qs.append(Q(f"stream/{name}", "stream", {"msgs": msgs}, cto=t, pto=t,
                    what=f"{len(msgs)} concatenated message(s) of unknown AVPs {msgs}: ids, M/P/reserved bits, data symbolic"))
    for idx, cls in enumerate(_select(tier)):
        ty = G.type_of(cls)
        for L in ([idx % 4 + 1] if tier == "quick" else ([0, 1, 2, 3, 4] if ty in G.OCTET_LIKE else [2])):
            plan = G.plan(cls, L=L, max_depth=3)
            qs.append(Q(f"known/{cls.__name__}/L{L}", "known", {"cls": cls.__name__, "L": L, "nb": plan["nb"], "ranges": plan["ranges"]}, cto=t, pto=t,
                        what=f"{cls.__name__} ({ty}) with default flags between two unknown AVPs: value symbolic"))
    for cname in (("OriginHostAVP", "VisitedPlmnIdAVP") if tier == "quick" else ("OriginHostAVP", "VisitedPlmnIdAVP", "ResultCodeAVP", "UserNameAVP", "MsisdnAVP")):
        cls = G.by_name(cname)
        L = 4 if G.type_of(cls) in ("Unsigned32", "Enumerated", "Integer32", "Time") else 3
        dflt = G.expected(cls)[2] & 0x7f
        qs.append(Q(f"known_flags/{cname}", "known_flags", {"cls": cname, "L": L, "dflt": dflt}, cto=t, pto=t,
                    what=f"{cname} received with any M/P/reserved bits: flags preserved and re-encoded identically"))
    for Ls in (([3, 1, 2],) if tier == "quick" else ([3, 1, 2], [0, 4, 1], [2, 2, 3], [1, 0, 0])):
        qs.append(Q(f"nested_unknown/{'_'.join(map(str, Ls))}", "nested_unknown", {"Ls": Ls}, cto=t, pto=t,
                    what=f"unknown members (lengths {Ls}) nested two levels inside Failed-AVP: flags/data symbolic"))
    for depth in ((36,) if tier == "quick" else (8, 36, 64)):
        qs.append(Q(f"deep/d{depth}", "deep", {"depth": depth, "L": 3}, cto=max(t, 400), pto=max(t, 400),
                    what=f"Failed-AVP nested to depth {depth} around an unknown leaf with symbolic flags/data: decoded level by level, re-encoded identically"))
    for L in ((1, 4) if tier == "quick" else (0, 1, 2, 3, 4, 5)):
        qs.append(Q(f"twins/L{L}", "twins", {"L": L}, cto=t, pto=t,
                    what=f"six same-code unknown AVPs ({L} data bytes each, flags/data symbolic: byte-identical siblings arise) at message level, in a Failed-AVP and in a nested one"))
    return qs


BOUNDS = ["same-code siblings with free flags/data (byte-identical siblings included) at three levels", "header: all values of all fields", "streams of 1..3 messages with <= 4 unknown AVPs each, every data length residue, flags (M,P,reserved) symbolic",
          "dictionary classes with default flags: quick = all Grouped + custom-logic + one per (type, vendor-ness); thorough = all", "nesting depth 3; one chain of depth 36 (quick) / 64"]
OUTSIDE = ["non-zero padding bytes (not well-formed)", "streams of more than 3 messages", "unknown (vendor, code) pairs are concrete constants per position "
           "(the loader only hashes and compares them)", "known AVPs carrying non-default flag bits: open known finding (region excluded, witness replayed)"]
ASSUMPTIONS = ["reference encoder produces the wire images", "frozen reference dictionary for (vendor, code) -> class and default flags"]
