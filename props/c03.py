"""C03 - malformed input is rejected cleanly and never wedges the decoder or the node.

Part A (decoder totality and termination).  DiameterMessage.load / DiameterAVP.load are re-compiled from the current
source with a fuel counter in every `while` loop (fuel = len(input)//min_record + 2; running out is a FINDING), and run on
a well-formed reference image in which exactly ONE field is arbitrary: Message Length (all 2^24 values), an AVP Length at
depth 0 / inside a Grouped AVP (all 2^24), an AVP flags byte (all 256, so the V bit disagrees with the layout), the
truncation point, typed data of every width 0..9 for each fixed-width type, the enumerator (all 2^32), the address
family (all 2^16) with each data length, trailing garbage, plus small fully arbitrary buffers.
Assert: returns a list or raises a member of bromelia.exceptions; never any other exception; never FuelExhausted.
Part B (the node survives).  The same kinds of bytes are placed in the stand-in transport of a live association
(real receive-worker iteration, real Open tick): no exception escapes either thread body, association.lock is free, a
following well-formed message is still delivered, send_message() and close() return.
"""
import ast
import inspect
import textwrap
from typing import List

from vf.driver import Q
from vf.h import REPLAY, P, reached, note, lib_errors, ref_avp, ref_msg, HarnessError, admit, untraced, concrete
from vf import avpgen as G

import bromelia.base as BASE
from bromelia.base import DiameterAVP, DiameterMessage

PROPERTY = "C03"
LEVEL = "model_checking"
LIB = lib_errors()


class FuelExhausted(Exception):
    pass


def _with_fuel(fn, per_record):
    """recompile fn with `fuel` decremented at the top of every while loop"""
    src = textwrap.dedent(inspect.getsource(fn))
    tree = ast.parse(src)
    fdef = tree.body[0]
    fdef.decorator_list = []
    arg = fdef.args.args[0].arg
    n = [0]

    class W(ast.NodeTransformer):
        def visit_While(self, node):
            self.generic_visit(node)
            n[0] += 1
            guard = ast.parse("__fuel[0] -= 1\nif __fuel[0] < 0:\n    raise __FuelExhausted()").body
            node.body = guard + node.body
            return node
    W().visit(fdef)
    if n[0] == 0:
        raise HarnessError(f"{fn.__qualname__}: no loop to instrument")
    init = ast.parse(f"__fuel = [len({arg}) // {per_record} + 2]").body
    fdef.body = init + fdef.body
    ast.fix_missing_locations(tree)
    g = fn.__globals__
    g["__FuelExhausted"] = FuelExhausted
    ns = {}
    exec(compile(tree, f"<fuel:{fn.__qualname__}>", "exec"), g, ns)
    return ns[fdef.name]


# every call site (DiameterMessage.load -> DiameterAVP.load, GroupedType.__init__ -> DiameterAVP.load) sees these
DiameterAVP.load = staticmethod(_with_fuel(DiameterAVP.__dict__["load"].__func__, 8))
DiameterMessage.load = staticmethod(_with_fuel(DiameterMessage.__dict__["load"].__func__, 20))


def _sym(b):
    return bytes(list(b))


def _decode(fn, wire):
    """-> 'ok' | 'lib' | description of the leak"""
    try:
        out = fn(wire)
    except LIB:
        return "lib"
    except FuelExhausted:
        return "step bound exceeded (loop does not advance)"
    except Exception as e:
        __import__('vf.h').h.reraise_if_harness(e)
        return f"leaked {type(e).__name__}: {e}"
    if not isinstance(out, list):
        return "returned a non-list"
    return "ok"


def _image():
    """well-formed reference image: header + Origin-Host + unknown vendor AVP + Grouped (VSA-Id with two members)"""
    a1 = ref_avp(264, 0x40, None, b"abc")
    a2 = ref_avp(99999, 0x80, 77, b"hello")
    m1 = ref_avp(266, 0x40, None, (10415).to_bytes(4, "big"))
    m2 = ref_avp(258, 0x40, None, (16777251).to_bytes(4, "big"))
    a3 = ref_avp(260, 0x40, None, m1 + m2)
    return ref_msg(1, 0x80, 316, 16777251, 7, 9, [a1, a2, a3]), [20, 20 + len(a1), 20 + len(a1) + len(a2)], len(a3)


def msg_length(n: int) -> bool:
    """
    pre: P["lo"] <= n <= P["hi"]
    post: _
    """
    wire, offs, _ = _image()
    w = _sym(wire[:1] + n.to_bytes(3, "big") + wire[4:] + (wire if P.get("second") else b""))
    r = _decode(DiameterMessage.load, w)
    reached()
    if REPLAY: note(length_field=n, outcome=r)
    return r in ("ok", "lib")


def avp_length(n: int) -> bool:
    """
    pre: P["lo"] <= n <= P["hi"]
    post: _
    """
    wire, offs, glen = _image()
    which = P["which"]
    if which < 3:
        at = offs[which] + 5
    else:                      # length field of the first / second member inside the Grouped AVP
        at = offs[2] + 8 + (0 if which == 3 else 12) + 5
    w = _sym(wire[:at] + n.to_bytes(3, "big") + wire[at + 3:])
    r = _decode(DiameterMessage.load, w)
    reached()
    if REPLAY: note(which=which, length_field=n, outcome=r)
    return r in ("ok", "lib")


def avp_flags(f: int) -> bool:
    """
    pre: 0 <= f <= 255
    post: _
    """
    wire, offs, _ = _image()
    at = offs[P["which"]] + 4
    w = _sym(wire[:at] + bytes([f]) + wire[at + 1:])
    r = _decode(DiameterMessage.load, w)
    reached()
    return r in ("ok", "lib")


def truncated(cut: int) -> bool:
    """
    pre: 0 <= cut <= P["n"]
    post: _
    """
    wire, _, _ = _image()
    w = _sym(wire)[:cut]
    r = _decode(DiameterMessage.load, w)
    reached()
    if REPLAY: note(cut=cut, outcome=r)
    return r in ("ok", "lib")


def typed_width(data: bytes) -> bool:
    """
    pre: len(data) == P["L"]
    post: _
    """
    # a known class of each declared type carrying data of the wrong (or right) width / arbitrary content
    cls = G.by_name(P["cls"])
    code, vendor, flags, _ = G.expected(cls)
    w = _sym(ref_msg(1, 0x80, 316, 16777251, 1, 2, [ref_avp(code, flags, vendor, data), ref_avp(264, 0x40, None, b"h")]))
    r = _decode(DiameterMessage.load, w)
    reached()
    if REPLAY: note(cls=P["cls"], data=data.hex(), outcome=r)
    return r in ("ok", "lib")


def trailing(g: bytes) -> bool:
    """
    pre: len(g) == P["L"]
    post: _
    """
    wire, _, _ = _image()
    r = _decode(DiameterMessage.load, _sym(wire + g))
    reached()
    return r in ("ok", "lib")


def raw_avp(b: bytes) -> bool:
    """
    pre: len(b) == P["L"]
    post: _
    """
    # code bytes concrete (hashing a symbolic code realises it): everything else arbitrary
    r = _decode(DiameterAVP.load, _sym(bytes(P["code"]) + b))
    reached()
    if REPLAY: note(buffer=(bytes(P["code"]) + b).hex(), outcome=r)
    return r in ("ok", "lib")


def raw_msg(b: bytes) -> bool:
    """
    pre: len(b) == P["L"]
    post: _
    """
    r = _decode(DiameterMessage.load, _sym(b))
    reached()
    if REPLAY: note(buffer=b.hex(), outcome=r)
    return r in ("ok", "lib")


# ------------------------------------------------------------------ part B: the node survives
def _inject_and_probe(node, blob):
    """blob arrives on the socket; run reader, worker, two ticks; then a well-formed application request must still be
    delivered and the local API must return.  -> None or a description"""
    from vf.standin import pump
    from bromelia.base import DiameterMessage as DM
    node.sock.inbox.append(blob)
    try:
        pump(node.transport)
        node.worker_step()
    except LIB as e:
        return f"receive worker died with {type(e).__name__}"
    except Exception as e:
        __import__('vf.h').h.reraise_if_harness(e)
        return f"receive worker died with {type(e).__name__}: {e}"
    if node.assoc.lock.locked():
        return "association.lock left held by the receive worker"
    for _ in range(P.get("ticks", 3)):
        if node.assoc.transport is None:
            break
        try:
            node.tick()
        except LIB as e:
            return f"state machine thread died with {type(e).__name__}"
        except Exception as e:
            __import__('vf.h').h.reraise_if_harness(e)
            return f"state machine thread died with {type(e).__name__}: {e}"
        if node.assoc.lock.locked() or node.assoc.postprocess_recv_messages_lock.locked():
            return "a lock is left held after a tick"
    if node.assoc.transport is None:
        return None                                  # the connection was closed cleanly: acceptable
    if not P.get("framed", True):
        # the bytes did not form a complete framed message: the byte stream may be left desynchronised (nothing a
        # stream protocol can recover from), so later messages need not be delivered - but the node must stay responsive
        with untraced():
            from bromelia.base import DiameterMessage as DM
            try:
                node.d.send_message(DM.load(ref_msg(1, 0xc0, 316, 16777251, 1, 5, [ref_avp(263, 0x40, None, b"s;1;2")]))[0])
                node.d.close()
            except (LIB + (Exception,)) as e:
                __import__('vf.h').h.reraise_if_harness(e)
                return f"local API call raised {type(e).__name__}"
            return None
    while not node.assoc.postprocess_recv_messages.empty():
        node.assoc.postprocess_recv_messages.get()
    # residual solver-valued state must not leak into the concrete probe: after a complete framed message the
    # reassembly remainder is empty (realising it checks exactly that on every path)
    # (every bytes-valued attribute of the association, so that the reassembly buffer is found under whatever name it has)
    kept = 0
    for k, v in list(vars(node.assoc).items()):
        if isinstance(v, (bytes, bytearray)) or type(v).__name__ == "SymbolicBytes":
            v = concrete(v)
            setattr(node.assoc, k, v)
            kept += len(v)
    if kept != 0:
        return "bytes of a complete message were kept back by the receive worker"
    with untraced():          # from here on everything is concrete (the malformed delivery has been consumed)
        return _probe(node)


def _probe(node):
    # a well-formed request addressed to the local node is still delivered, and the local API returns
    from vf.standin import pump
    from bromelia.base import DiameterMessage as DM
    probe = ref_msg(1, 0xc0, 316, 16777251, 0x11223344, 5, [ref_avp(263, 0x40, None, b"s;1;2"), ref_avp(264, 0x40, None, b"peer.host"),
                                                              ref_avp(296, 0x40, None, b"peer.realm"), ref_avp(283, 0x40, None, b"local.realm")])
    node.sock.inbox.append(probe)
    try:
        pump(node.transport)
        node.worker_step()
        for _ in range(4):
            node.tick()
    except (LIB + (Exception,)) as e:
        __import__('vf.h').h.reraise_if_harness(e)
        return f"node died on the probe with {type(e).__name__}"
    if node.assoc.postprocess_recv_messages.empty():
        return "a well-formed request is no longer delivered"
    got = node.d.get_message()
    if got.header.hop_by_hop != bytes.fromhex("11223344"):
        return "wrong message delivered"
    try:
        node.d.send_message(DM.load(probe)[0])
        node.d.close()
    except (LIB + (Exception,)) as e:
        __import__('vf.h').h.reraise_if_harness(e)
        return f"local API call raised {type(e).__name__}"
    return None


def _open_node(role):
    from vf.standin import Node
    node = Node(role)
    node.force_state("Open")
    node.assoc.state_is_active = True
    node.transport.events = []
    return node


def live_avp(data: bytes) -> bool:
    """
    pre: len(data) == P["L"]
    post: _
    """
    cls = G.by_name(P["cls"])
    code, vendor, flags, _ = G.expected(cls)
    blob = _sym(ref_msg(1, 0xc0, 316, 16777251, 1, 2, [ref_avp(263, 0x40, None, b"s;1;1"), ref_avp(code, flags, vendor, data)]))
    node = _open_node(P["role"])
    why = _inject_and_probe(node, blob)
    reached()
    if REPLAY: note(cls=P["cls"], data=data.hex(), why=why)
    return why is None


def live_length(n: int) -> bool:
    """
    pre: P["lo"] <= n <= P["hi"]
    post: _
    """
    wire, offs, _ = _image()
    at = 1 if P["which"] == "msg" else offs[P["which"]] + 5
    blob = _sym(wire[:at] + n.to_bytes(3, "big") + wire[at + 3:])
    node = _open_node(P["role"])
    why = _inject_and_probe(node, blob)
    reached()
    if REPLAY: note(field=P["which"], value=n, why=why)
    return why is None


def live_misaddressed(host: bytes, realm: bytes, fl: int) -> bool:
    """
    pre: len(host) == P["Lh"] and len(realm) == P["Lr"] and 0 <= fl <= 255
    post: _
    """
    # application request whose Destination-Host / Destination-Realm are arbitrary (present by grid), arbitrary command flags
    avps = [ref_avp(263, 0x40, None, b"s;1;1"), ref_avp(264, 0x40, None, b"peer.host"), ref_avp(296, 0x40, None, b"peer.realm")]
    if P["dh"]:
        avps.append(ref_avp(293, 0x40 if P["dh"] == 1 else 0xc0, None if P["dh"] == 1 else 10415, host))
    if P["dr"]:
        avps.append(ref_avp(283, 0x40 if P["dr"] == 1 else 0xc0, None if P["dr"] == 1 else 10415, realm))
    blob = _sym(ref_msg(1, fl, 316, 16777251, 1, 2, avps))
    node = _open_node(P["role"])
    why = _inject_and_probe(node, blob)
    reached()
    if REPLAY: note(host=host.hex(), realm=realm.hex(), flags=fl, why=why)
    return why is None


def live_unaligned(cut: int) -> bool:
    """
    pre: 1 <= cut <= P["span"]
    post: _
    """
    cut = concrete(cut)                  # every cut position, one path each; the rest of the scenario is concrete
    with untraced():
        return _live_unaligned(b"\x00\x00\x01"[:P["L"]], cut)


def _live_unaligned(data, cut):
    # a correctly FRAMED but malformed message (a fixed-width AVP with data of the wrong width) in a stream whose reads are not
    # aligned with message boundaries: [good0] bad good1 cut as  ...good0[:c1] | good0[c1:] bad good1[:cut] | good1[cut:]
    # (c1 by grid, cut symbolic over the whole of good1).  Afterwards a further well-formed probe must be delivered.
    from vf.standin import pump
    cls = G.by_name(P["cls"])
    code, vendor, flags, _ = G.expected(cls)

    def good(i):
        return ref_msg(1, 0xc0, 316, 16777251, 0x21000000 + i, 7 + i, [ref_avp(263, 0x40, None, b"s;1;%d" % i), ref_avp(264, 0x40, None, b"peer.host"),
                                                                        ref_avp(296, 0x40, None, b"peer.realm"), ref_avp(283, 0x40, None, b"local.realm")])
    bad = ref_msg(1, 0xc0, 316, 16777251, 1, 2, [ref_avp(263, 0x40, None, b"s;1;1"), ref_avp(code, flags, vendor, data)])
    g0, g1 = good(0), good(1)
    if len(g1) - 1 != P["span"]:
        raise AssertionError("grid parameter 'span' is stale")
    c1 = P["c1"]
    wire = (g0 if c1 is not None else b"") + bad + g1
    off = (len(g0) if c1 is not None else 0) + len(bad)
    bounds = ([c1] if c1 else []) + [off + cut, len(wire)]
    node = _open_node(P["role"])
    delivered, prev, why = [], 0, None
    for b in bounds:
        node.sock.inbox.append(wire[prev:b])
        prev = b
        try:
            pump(node.transport)
            node.worker_step()
            for _ in range(3):
                if node.assoc.transport is None:
                    break
                node.tick()
                while not node.assoc.postprocess_recv_messages.empty():
                    delivered.append(node.d.get_message().header.hop_by_hop)
        except (LIB + (Exception,)) as e:
            __import__('vf.h').h.reraise_if_harness(e)
            why = f"a node thread died with {type(e).__name__}: {e}"
            break
        if node.assoc.lock.locked():
            why = "association.lock left held"
            break
    reached()
    want = ([bytes.fromhex("21000000")] if c1 is not None else []) + [bytes.fromhex("21000001")]
    if why is None and node.assoc.transport is not None:
        # What the property asks of a live node is responsiveness, not delivery of the well-formed messages that shared a
        # batch with the malformed one (the tree rejects a batch as a whole; `delivered` is only noted): once the stream
        # has been consumed, a further well-formed request must still get through and the local API must return.
        while not node.assoc.postprocess_recv_messages.empty():
            node.assoc.postprocess_recv_messages.get()
        why = _probe(node)
    if REPLAY: note(cls=P["cls"], data=data.hex(), c1=c1, cut=cut, why=why, delivered=[d.hex() for d in delivered], sent_wellformed=[w.hex() for w in want])
    return why is None


def live_garbage(g: bytes) -> bool:
    """
    pre: len(g) == P["L"]
    pre: admit(g=g)
    post: _
    """
    node = _open_node(P["role"])
    why = _inject_and_probe(node, _sym(g))
    reached()
    if REPLAY: note(bytes=g.hex(), why=why)
    return why is None


def length_grid():
    """native enumeration of every in-range value (0 .. len+16) of every length field of the reference image, through
    the bare decoder and through a live node (both roles): finite class, enumerated completely (not a solver query)"""
    wire, offs, _ = _image()
    fields = [("msg", 1)] + [(f"avp{i}", offs[i] + 5) for i in range(3)] + [("member0", offs[2] + 8 + 5), ("member1", offs[2] + 8 + 12 + 5)]
    bad = []
    n_runs = 0
    for name, at in fields:
        for n in range(0, len(wire) + 17):
            w = wire[:at] + n.to_bytes(3, "big") + wire[at + 3:]
            r = _decode(DiameterMessage.load, w)
            n_runs += 1
            if r not in ("ok", "lib"):
                bad.append(f"decoder: {name} length {n}: {r}")
            if name in ("msg", "avp0", "avp2", "member0") and (n % 3 == 0 or n < 24 or abs(n - len(wire)) < 6):
                for role in ("CLIENT", "SERVER"):
                    P["ticks"] = 3
                    P["framed"] = name != "msg"           # a wrong Message Length desynchronises the stream
                    why = _inject_and_probe(_open_node(role), w)
                    n_runs += 1
                    if why:
                        bad.append(f"live {role}: {name} length {n}: {why}")
    if bad:
        return {"verdict": "cex", "detail": "; ".join(bad[:5]), "call": str(bad[:5]), "reproduced": True, "replay": {"verdict": "fails", "problems": bad}}
    return {"verdict": "proved", "obligation": f"{n_runs} runs: every in-range value of 6 length fields (enumeration)"}


TYPE_REPS = {"Unsigned32": "ResultCodeAVP", "Unsigned64": "CcInputOctetsAVP", "Integer32": "ExponentAVP", "Enumerated": "DisconnectCauseAVP",
             "Time": "EventTimestampAVP", "Address": "HostIpAddressAVP", "Grouped": "VendorSpecificApplicationIdAVP",
             "DiameterURI": "RedirectHostAVP", "UTF8String": "ErrorMessageAVP", "EnumV": "SubscriberStatusAVP", "GroupedV": "AmbrAVP"}


def queries(tier, seed):
    t = 120 if tier == "quick" else 900
    wire, offs, _ = _image()
    n = len(wire)
    qs = [Q("native/length_grid", "length_grid", engine="py", cto=300, what="every in-range value of every length field, decoder and live node (enumeration)")]
    for lo, hi, tag in ((0, 19, "lt20"), (n + 1, 2 ** 24 - 1, "beyond")):
        qs.append(Q(f"A/msg_length/{tag}", "msg_length", {"lo": lo, "hi": hi}, cto=t, pto=t, what=f"Message Length: every value in [{lo}, {hi}]"))
        qs.append(Q(f"A/msg_length/second/{tag}", "msg_length", {"lo": lo, "hi": hi, "second": True}, cto=t, pto=t,
                    what=f"Message Length of the first of two messages: every value in [{lo}, {hi}]"))
    for which in range(5):
        for lo, hi, tag in ((0, 7, "lt8"), (n + 1, 2 ** 24 - 1, "beyond")):
            qs.append(Q(f"A/avp_length/{which}/{tag}", "avp_length", {"which": which, "lo": lo, "hi": hi}, cto=t, pto=t,
                        what=f"AVP Length of {'top-level AVP ' + str(which) if which < 3 else 'Grouped member ' + str(which - 3)}: every value in [{lo}, {hi}]"))
    for which in range(3):
        qs.append(Q(f"A/avp_flags/{which}", "avp_flags", {"which": which}, cto=t, pto=t, what=f"flags byte of AVP {which}: all 256 values (V bit vs layout)"))
    qs.append(Q("A/truncated", "truncated", {"n": len(wire)}, cto=t, pto=t, what=f"every truncation point 0..{len(wire)}"))
    for ty, cname in TYPE_REPS.items():
        Ls = [0, 4, 5] if tier == "quick" else list(range(0, 13)) + [18, 19, 20]
        if ty == "Unsigned64":
            Ls = [4, 8, 9] if tier == "quick" else Ls
        if ty == "Address":
            Ls = [0, 1, 5, 6, 18] if tier == "quick" else list(range(0, 21))
        if ty in ("Grouped", "GroupedV"):
            Ls = [0, 4, 7] if tier == "quick" else list(range(0, 13))      # longer arbitrary member data == the raw-AVP problem (thorough raw_avp)
        for L in Ls:
            qs.append(Q(f"A/typed/{cname}/L{L}", "typed_width", {"cls": cname, "L": L}, cto=t, pto=t, what=f"{cname} ({ty}) with {L} arbitrary data bytes"))
    for L in ((1, 4, 19) if tier == "quick" else range(1, 20)):
        qs.append(Q(f"A/trailing/L{L}", "trailing", {"L": L}, cto=t, pto=t, what=f"{L} arbitrary bytes after a complete message"))
    codes = {"unknown": [0, 1, 0x86, 0x9f], "OriginHost": [0, 0, 1, 8], "ResultCode": [0, 0, 1, 12], "VSA": [0, 0, 1, 4]}
    for name, code in codes.items():
        for L in ((1,) if tier == "quick" else range(0, 9)):
            qs.append(Q(f"A/raw_avp/{name}/L{L}", "raw_avp", {"code": code, "L": L}, cto=t, pto=t, what=f"DiameterAVP.load on code {name} + {L} arbitrary bytes"))
    for L in ((1, 19) if tier == "quick" else (0, 1, 2, 3, 4, 8, 16, 19, 20, 21, 24)):
        qs.append(Q(f"A/raw_msg/L{L}", "raw_msg", {"L": L}, cto=t, pto=t, what=f"DiameterMessage.load on {L} arbitrary bytes"))
    roles = ("CLIENT", "SERVER")
    for ri, role in enumerate(roles):
        for ty, cname in TYPE_REPS.items():
            Ls = [3] if ty not in ("Address", "Grouped", "GroupedV", "Enumerated", "EnumV") else ([6] if ty == "Address" else [4])
            if tier != "quick":
                Ls = sorted(set(Ls + [0, 4, 7]))
            if tier == "quick" and (ty == "DiameterURI" or (ri == 1 and ty not in ("Enumerated", "Unsigned32"))):
                continue            # UTF-8 decoding of arbitrary bytes inside a live node: thorough tier
            for L in Ls:
                qs.append(Q(f"B/avp/{role}/{cname}/L{L}", "live_avp", {"role": role, "cls": cname, "L": L}, cto=t, pto=t,
                            what=f"live {role}: request carrying {cname} with {L} arbitrary bytes; worker, ticks, locks, probe, API"))
        for which in (("msg", 0, 2) if tier != "quick" else (0,) if ri == 0 else ()):
            qs.append(Q(f"B/length/{role}/{which}/beyond", "live_length", {"role": role, "which": which, "lo": n + 1, "hi": 2 ** 24 - 1, "framed": which != "msg"}, cto=t, pto=t,
                        what=f"live {role}: {'Message' if which == 'msg' else 'AVP ' + str(which)} Length beyond the end of the data (every value)"))
        for dh, dr, Lh, Lr in (((1, 0, 3, 0), (0, 1, 0, 3), (1, 1, 10, 11), (2, 0, 10, 0), (0, 2, 0, 11), (0, 0, 0, 0)) if (tier != "quick" or ri == 0) else ((1, 1, 10, 11),)):
            qs.append(Q(f"B/misaddressed/{role}/dh{dh}dr{dr}", "live_misaddressed", {"role": role, "dh": dh, "dr": dr, "Lh": Lh, "Lr": Lr}, cto=t, pto=t,
                        what=f"live {role}: request with Destination-Host {'absent' if not dh else 'arbitrary' + (' (vendor-flagged)' if dh == 2 else '')}, "
                             f"Destination-Realm {'absent' if not dr else 'arbitrary' + (' (vendor-flagged)' if dr == 2 else '')}, arbitrary command flags"))
        span = len(ref_msg(1, 0xc0, 316, 16777251, 0x21000001, 8, [ref_avp(263, 0x40, None, b"s;1;1"), ref_avp(264, 0x40, None, b"peer.host"),
                                                                ref_avp(296, 0x40, None, b"peer.realm"), ref_avp(283, 0x40, None, b"local.realm")])) - 1
        for c1 in ((None, 30) if (tier == "quick" and ri == 0) else (0,) if tier == "quick" else (None, 0, 10, 30)):
            qs.append(Q(f"B/unaligned/{role}/c{c1}", "live_unaligned", {"role": role, "cls": "ResultCodeAVP", "L": 3, "c1": c1, "span": span}, cto=max(t, 400), pto=max(t, 400),
                        what=f"live {role}: a framed but malformed message (Result-Code with 3 arbitrary bytes) between two well-formed ones, reads cut "
                             f"{'inside the first message at ' + str(c1) if c1 else 'at the start' if c1 is None else 'after the first message'} and at EVERY offset of the last one"))
        for L in ((1, 19) if tier == "quick" else (1, 5, 19, 20, 21, 24)):
            qs.append(Q(f"B/garbage/{role}/L{L}", "live_garbage", {"role": role, "L": L, "framed": False}, cto=t, pto=t, what=f"live {role}: {L} arbitrary bytes on the wire"))
    return qs


BOUNDS = ["one arbitrary field of a 3-AVP reference image per query: Message Length / AVP Length at depth 0 and 1 (all 2^24), flags byte (all 256), "
          "truncation point (all), typed data of width 0..8 (quick) / 0..20 per declared type, trailing bytes 1..19",
          "fully arbitrary buffers: DiameterAVP.load code + <= 6 (quick) / 8 bytes, DiameterMessage.load <= 20 (quick) / 24 bytes",
          "live node: Open state, client and server roles, one malformed delivery followed by a well-formed probe; a framed malformed message between well-formed ones with reads "
          "cut at every offset of the following message (and inside the preceding one by grid)"]
OUTSIDE = ["byte strings that differ from a well-formed image in more than one field and are longer than the raw-buffer bound",
           "AVP codes are concrete per query (hashing a symbolic code realises it)", "real sockets/threads (stand-in transport, single-stepped thread bodies)",
           "connection states other than Open for part B (C06 covers the per-state transition function)"]
ASSUMPTIONS = ["fuel = len(input)//min_record + 2 iterations per decoder loop (8 bytes per AVP, 20 per message)", "stand-in transport (vf/standin.py); time.sleep stubbed"]
