"""C04 - inbound messages are delivered once, in order, however the stream is fragmented.

(i)  Segmentation.  The concatenated reference encoding of n messages (application requests/answers and base DWRs) is
     handed to the REAL reader (TcpConnection._run/read/_read on a stand-in socket) in chunks cut at solver-chosen
     indices - any split points, also inside headers and length fields, down to one byte at a time; after every chunk
     the real receive-worker iteration and state-machine ticks run.  Assert: get_message() yields exactly the
     application messages, complete and in order, and the base requests were answered in order.
(ii) Interleavings.  The real reader (`read`), receive worker (`recv_message_from_queue`), state machine (`Open.run`
     via the tick loop) and application consumer (`get_message`) are re-compiled from source as coroutines with
     stand-in Lock/Event/Queue objects; every scheduling decision is a boolean solver variable (E3).
"""
from typing import List

from vf.driver import Q
from vf.h import REPLAY, P, reached, note, lib_errors, ref_avp, ref_msg, ref_decode_msgs, untraced, concrete, admit
from vf.standin import Node, pump

PROPERTY = "C04"
LEVEL = "model_checking"
LIB = lib_errors()


def _app_req(i, hbh, size=3):
    return ref_msg(1, 0xc0, 316, 16777251, hbh, 1000 + i,
                   [ref_avp(263, 0x40, None, b"sess;%d" % i), ref_avp(264, 0x40, None, b"peer.host"), ref_avp(296, 0x40, None, b"peer.realm"),
                    ref_avp(283, 0x40, None, b"local.realm"), ref_avp(1, 0x40, None, b"u" * size)])


def _app_ans(i, hbh):
    return ref_msg(1, 0x40, 316, 16777251, hbh, 2000 + i,
                   [ref_avp(263, 0x40, None, b"sess;%d" % i), ref_avp(268, 0x40, None, (2001).to_bytes(4, "big")), ref_avp(264, 0x40, None, b"peer.host"),
                    ref_avp(296, 0x40, None, b"peer.realm")])


def _dwr(i, hbh):
    return ref_msg(1, 0x80, 280, 0, hbh, 3000 + i, [ref_avp(264, 0x40, None, b"peer.host"), ref_avp(296, 0x40, None, b"peer.realm")])


def _stream(kinds, ids):
    out = []
    for i, (k, h) in enumerate(zip(kinds, ids)):
        out.append({"req": _app_req, "ans": _app_ans, "dwr": _dwr}[k](i, h))
    return out


def _deliver(node, chunks, nmsgs):
    """feed the chunks through the real reader / worker / state machine; -> (delivered app dumps, DWA ids) or error string"""
    delivered = []
    for ch in chunks:
        if len(ch) == 0:
            continue
        node.sock.inbox.append(ch)
        try:
            pump(node.transport)
            node.worker_step()
            for _ in range(nmsgs + 1):
                if node.assoc.transport is None:
                    return "connection closed"
                node.tick()
                node.flush()
                while not node.assoc.postprocess_recv_messages.empty():
                    delivered.append(node.d.get_message().dump())
        except (LIB + (Exception,)) as e:
            __import__('vf.h').h.reraise_if_harness(e)
            return f"{type(e).__name__}: {e}"
        if node.assoc.lock.locked():
            return "association lock left held"
    answers = [(h["hbh"], h["e2e"]) for h, _ in ref_decode_msgs(b"".join(node.sock.sent)) if h["command"] == 280 and h["flags"] < 128]
    return delivered, answers


def segmented(cuts: List[int]) -> bool:
    """
    pre: len(cuts) == P["ncuts"] and all(0 <= c <= P["total"] for c in cuts)
    post: _
    """
    kinds = P["kinds"]
    ids = [0x10000 + 17 * i for i in range(len(kinds))]
    cuts = sorted(concrete(c) for c in cuts)       # any cut positions, realised one path each
    with untraced():
        msgs = _stream(kinds, ids)
        wire = b"".join(msgs)
        if len(wire) != P["total"]:
            raise AssertionError("grid parameter 'total' is stale")
        chunks, prev = [], 0
        for c in cuts + [len(wire)]:
            chunks.append(wire[prev:c])
            prev = c
        node = Node(P["role"], watchdog=10 ** 6)
        node.force_state("Open")
        node.assoc.state_is_active = True
        node.transport.events = [("busy", 1)]
        res = _deliver(node, chunks, len(kinds))
        reached()
        if isinstance(res, str):
            if REPLAY: note(cuts=cuts, error=res)
            return False
        delivered, answers = res
        want = [m for k, m in zip(kinds, msgs) if k != "dwr"]
        want_ans = [(h, 3000 + i) for i, (k, h) in enumerate(zip(kinds, ids)) if k == "dwr"]
        if REPLAY: note(cuts=cuts, delivered=len(delivered), expected=len(want), answers=answers, expected_answers=want_ans)
        return delivered == want and answers == want_ans


def bytewise() -> dict:
    """regular chunkings: k bytes per read for k = 1..40 (native enumeration, both roles)"""
    bad = []
    for role, k in [(r, k) for r in ("CLIENT", "SERVER") for k in range(1, 41)]:
        kinds = ["req", "dwr", "ans", "req"]
        ids = [0x20000 + i for i in range(4)]
        msgs = _stream(kinds, ids)
        wire = b"".join(msgs)
        node = Node(role, watchdog=10 ** 6)
        node.force_state("Open")
        node.assoc.state_is_active = True
        node.transport.events = [("busy", 1)]
        res = _deliver(node, [wire[i:i + k] for i in range(0, len(wire), k)], 2)
        if isinstance(res, str):
            bad.append(f"{role} {k} bytes/read: {res}")
            continue
        delivered, answers = res
        if delivered != [m for kd, m in zip(kinds, msgs) if kd != "dwr"] or answers != [(ids[1], 3001)]:
            bad.append(f"{role} {k} bytes/read: delivered {len(delivered)} of 3, answers {answers}")
    if bad:
        return {"verdict": "cex", "detail": "; ".join(bad[:4]), "call": "k bytes per read", "reproduced": True, "replay": {"verdict": "fails", "problems": bad}}
    return {"verdict": "proved", "obligation": "4 messages delivered k bytes per read, k = 1..40, both roles (enumeration)"}


def ids_symbolic(ids: List[int], cut: int) -> bool:
    """
    pre: len(ids) == 3 and all(0 <= x < 2**32 for x in ids)
    pre: 0 <= cut <= 40
    post: _
    """
    # contents symbolic (Hop-by-Hop of every message) with one cut inside the first header / first AVP
    kinds = ["req", "dwr", "req"]
    msgs = _stream(kinds, ids)
    wire = bytes(list(b"".join(msgs)))
    with untraced():
        node = Node(P["role"], watchdog=10 ** 6)
        node.force_state("Open")
        node.assoc.state_is_active = True
        node.transport.events = [("busy", 1)]
    res = _deliver(node, [wire[:cut], wire[cut:]], 3)
    reached()
    if isinstance(res, str):
        return False
    delivered, answers = res
    return delivered == [msgs[0], msgs[2]] and answers == [(ids[1], 3001)]


# ------------------------------------------------------------------ (ii) interleavings (E3)
def interleaved(sched: List[bool]) -> bool:
    """
    pre: len(sched) == P["K"]
    post: _
    """
    from vf import cosched as CS
    from vf.conode import CoNode
    from crosshair.core import IgnoreAttempt
    with untraced():
        kinds = P["kinds"]
        ids = [0x30000 + 5 * i for i in range(len(kinds))]
        msgs = _stream(kinds, ids)
        wire = b"".join(msgs)
        node = CoNode(P["role"], lines=P.get("lines", False))
        bounds = sorted(set(P["cuts"] + [len(wire)]))
        prev, chunks = 0, []
        for c in bounds:
            if c > prev:
                chunks.append(wire[prev:c])
            prev = c
        want = [m for k, m in zip(kinds, msgs) if k != "dwr"]
        got = []

        def consumer():
            for _ in range(len(want)):
                m = yield from node.d.get_message()
                got.append(m.dump() if m is not None else None)

        def network():
            # the peer's later segments arrive at arbitrary moments (a scheduler decision each)
            for ch in chunks[1:]:
                yield
                node.sock.inbox.append(ch)
        def drain():
            # reader/worker pair only: the decoded messages as they enter the association's inbound queue
            for _ in range(len(kinds)):
                m = yield from node.assoc._recv_messages.get()
                got.append(m.dump())
        s = CS.Sched(sched, max_preempt=P.get("maxp"))
        th = P.get("threads", "ARWS")
        if "A" in th:
            s.spawn("A", consumer())
        else:
            want = list(msgs)
            s.spawn("D", drain())
        if P.get("network"):
            node.sock.inbox.append(chunks[0])
            s.spawn("N", network(), daemon=True)
        else:
            node.sock.inbox.extend(chunks)
        s.spawn("R", node.reader(), daemon=True)
        s.spawn("W", node.worker(), daemon=True)
        if "S" in th:
            s.spawn("S", node.machine(), daemon=True)
        try:
            s.run()
        except CS.Prune:
            raise IgnoreAttempt("schedule bound")
        except CS.Deadlock as d:
            reached()
            if REPLAY: note(deadlock=d.who, delivered=len(got), expected=len(want), schedule="".join(x[0] for x in s.trace))
            return False
        except (LIB + (Exception,)) as e:
            __import__('vf.h').h.reraise_if_harness(e)
            reached()
            if REPLAY: note(raised=f"{type(e).__name__}: {e}", schedule="".join(x[0] for x in s.trace))
            return False
        reached()
        if REPLAY: note(delivered=len(got), expected=len(want), schedule="".join(x[0] for x in s.trace))
        return got == want


def handover(sched: List[bool]) -> bool:
    """
    pre: len(sched) == P["K"]
    post: _
    """
    # state machine -> application hand-over in isolation: n parsed application messages wait in the association's inbound
    # queue; the state-machine thread forwards them (notify_postprocess_message), the consumer thread calls get_message() n
    # times; preemption point before EVERY statement of get_message / get_postprocess_recv_message / notify_postprocess_message
    from vf import cosched as CS
    from vf.conode import CoNode
    from crosshair.core import IgnoreAttempt
    from bromelia.base import DiameterMessage
    with untraced():
        n = P["n"]
        node = CoNode(P["role"], lines=["get_message", "get_postprocess_recv_message", "notify_postprocess_message"])
        wires = [_app_req(i, 0x40000 + i) for i in range(n)]
        for w in wires:
            node.assoc._recv_messages.put(DiameterMessage.load(w)[0])
        got = []

        def consumer():
            for _ in range(n):
                m = yield from node.d.get_message()
                got.append(m.dump() if m is not None else None)
        s = CS.Sched(sched, max_preempt=P.get("maxp"))
        s.spawn("A", consumer())
        s.spawn("S", node.machine(), daemon=True)
        try:
            s.run()
        except CS.Prune:
            raise IgnoreAttempt("schedule bound")
        except CS.Deadlock as d:
            reached()
            if REPLAY: note(deadlock=d.who, delivered=len(got), expected=n, schedule="".join(x[0] for x in s.trace)[-200:])
            return False
        except (LIB + (Exception,)) as e:
            __import__('vf.h').h.reraise_if_harness(e)
            reached()
            if REPLAY: note(raised=f"{type(e).__name__}: {e}", schedule="".join(x[0] for x in s.trace)[-200:])
            return False
        reached()
        if REPLAY: note(delivered=len(got), expected=n, schedule="".join(x[0] for x in s.trace)[-200:])
        return got == wires


def queries(tier, seed):
    t = 150 if tier == "quick" else 1800
    qs = [Q("native/bytewise", "bytewise", engine="py", cto=120, what="4 messages, one byte per read, both roles")]
    for role in ("CLIENT", "SERVER"):
        for kinds, ncuts in (((["req", "dwr", "req"], 1), (["ans", "dwr"], 1)) if tier == "quick" else
                             ((["req", "dwr", "req"], 1), (["ans", "dwr"], 1), (["req", "ans"], 2), (["dwr", "ans"], 2), (["dwr"], 3))):
            total = len(b"".join(_stream(kinds, [0x10000 + 17 * i for i in range(len(kinds))])))
            qs.append(Q(f"segmented/{role}/{'-'.join(kinds)}/cuts{ncuts}", "segmented", {"role": role, "kinds": kinds, "ncuts": ncuts, "total": total}, cto=t, pto=t,
                        what=f"{role}: {kinds} ({total} bytes) cut at {ncuts} arbitrary position(s): every segmentation"))
        qs.append(Q(f"ids_symbolic/{role}", "ids_symbolic", {"role": role}, cto=max(t, 400), pto=max(t, 400), what=f"{role}: identifiers symbolic, one cut in the first 40 bytes"))
    L1 = len(_app_req(0, 0x30000))
    qs.append(Q("interleaved/aligned/P1", "interleaved", {"role": "CLIENT", "kinds": ["req", "req"], "cuts": [L1], "K": 48, "maxp": 1}, cto=t, pto=t,
                what="reader / receive worker / state machine / consumer as coroutines, 2 requests in 2 message-aligned reads: every schedule with <= 1 preemption"))
    qs.append(Q("interleaved/split/P1", "interleaved", {"role": "CLIENT", "kinds": ["req", "req"], "cuts": [10, L1 + 30], "K": 48, "maxp": 1}, cto=t, pto=t,
                what="same, reads cut inside the first header and inside the second message: every schedule with <= 1 preemption"))
    LN = ["read", "recv_message_from_queue"]
    qs.append(Q("interleaved/arrival/reader-worker/lines/P1", "interleaved",
                {"role": "CLIENT", "kinds": ["req", "req"], "cuts": [L1], "K": 64, "maxp": 1, "network": True, "threads": "RW", "lines": LN}, cto=max(t, 400), pto=max(t, 400), split=3,
                what="reader + receive worker + a network thread delivering the 2nd segment at an arbitrary moment; preemption point before EVERY statement of "
                     "read() and recv_message_from_queue(): every schedule with <= 1 preemption; oracle: the association's inbound queue"))
    qs.append(Q("handover/lines/n2/P2", "handover", {"role": "CLIENT", "n": 2, "K": 64, "maxp": 2}, cto=t, pto=t, split=2,
                what="state machine -> consumer hand-over of 2 parsed messages, preemption point before every statement of get_message / "
                     "get_postprocess_recv_message / notify_postprocess_message: every schedule with <= 2 preemptions"))
    if tier != "quick":
        qs.append(Q("handover/lines/n3/P3", "handover", {"role": "SERVER", "n": 3, "K": 96, "maxp": 3}, cto=t, pto=t, split=3,
                    what="the same with 3 messages and <= 3 preemptions"))
        qs.append(Q("interleaved/arrival/reader-worker/lines/P2", "interleaved",
                    {"role": "CLIENT", "kinds": ["req", "dwr"], "cuts": [40], "K": 64, "maxp": 2, "network": True, "threads": "RW", "lines": LN}, cto=t, pto=t,
                    what="same with a cut inside the first message and <= 2 preemptions (~54 000 schedules)"))
        qs.append(Q("interleaved/arrival/all/lines/P1", "interleaved",
                    {"role": "CLIENT", "kinds": ["req", "req"], "cuts": [L1], "K": 64, "maxp": 1, "network": True, "lines": True}, cto=t, pto=t,
                    what="all four threads + network thread, statement-level preemption in the transport/association methods touching shared state, <= 1 preemption (~19 000 schedules)"))
        qs.append(Q("interleaved/aligned/P2", "interleaved", {"role": "CLIENT", "kinds": ["req", "req"], "cuts": [L1], "K": 64, "maxp": 2}, cto=t, pto=t,
                    what="four threads at synchronisation-operation granularity, <= 2 preemptions (~5 500 schedules)"))
    return qs


BOUNDS = ["(iii) hand-over state machine -> consumer in isolation: 2 (quick) / 3 parsed messages, statement-level preemption in get_message / get_postprocess_recv_message / "
          "notify_postprocess_message, <= 2 / 3 preemptions", "(i) streams of 2-3 messages with 1 arbitrary cut (quick) / 2 cuts on two-message streams and 3 cuts on one message (thorough): every segmentation into that "
          "many reads; regular chunkings of 1..40 bytes per read over a 4-message stream as a native run; identifiers symbolic with one cut in the first 40 bytes",
          "(i) schedule: reader, worker, state machine and consumer run to quiescence after each read (the interleaving dimension is (ii))",
          "(ii) 2 messages in 2-3 reads; threads reader/worker/state machine/consumer at synchronisation-operation granularity with <= 1 (quick) / 2 preemptions; "
          "reader + worker + network-arrival thread with a preemption point before every statement of read() and recv_message_from_queue(), <= 1 (quick) / 2 preemptions; "
          "all threads + arrival at statement level with <= 1 preemption (thorough); K = 48-64 boolean scheduling decisions (longer schedules are pruned, counted)"]
OUTSIDE = ["more than 4 messages / 4 reads per query", "more preemptions than stated; preemption inside a statement (bytecode granularity)", "state-machine idle ticks are not "
           "scheduled freely (CoTime: a tick pause resumes when the node has work or at quiescence)", "SCTP classes (pysctp absent)", "real kernel sockets and OS scheduling"]
ASSUMPTIONS = ["stand-in socket/selector (vf/standin.py)", "reference encoder for the peer's messages"]
