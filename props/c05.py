"""C05 - submitted messages are written to the socket exactly once, whole and in order.

The REAL Diameter.send_message/send_messages, DiameterAssociation.put_message_into_send_queue/send_message_from_queue,
the state-machine loop (Open.run/event_send_message), TcpConnection._run/write/_write/read/_set_selector_events_mask are
re-compiled from the current source as coroutines on stand-in Lock/Event/Queue/selector/socket objects (vf/conode.py).
Threads: 1-2 application submitters, the state-machine thread, the transport thread, optionally a network thread
delivering inbound data (a DWR, which also makes the node emit a DWA, or an application request) at an arbitrary moment.
Every scheduling decision is a boolean solver variable (E3); the partial-write pattern of the stand-in socket
(bytes accepted per send() call) is a grid parameter.
Oracle: the concatenation of everything the stand-in socket accepted is an interleaving of the submitters' message
encodings (dump() taken at submission) and of the expected base answers, each whole, once, per-submitter order kept.
"""
from typing import List

from vf.driver import Q
from vf.h import REPLAY, P, reached, note, lib_errors, untraced
from props.c06 import build

PROPERTY = "C05"
LEVEL = "model_checking"
LIB = lib_errors()


def _mk(kind, n):
    m = build(kind)
    m.header.hop_by_hop = (0x0c000000 + n).to_bytes(4, "big")
    m.header.end_to_end = (0x0d000000 + n).to_bytes(4, "big")
    return m


def _match(stream, seqs):
    """is `stream` an interleaving of the byte-string sequences `seqs` (each in order, each element whole, once)?
    -> (ok, description).  Elements are pairwise distinct and none is a prefix of another, so greedy matching decides."""
    idx = [0] * len(seqs)
    pos = 0
    order = []
    while pos < len(stream):
        for t, seq in enumerate(seqs):
            if idx[t] < len(seq) and stream.startswith(seq[idx[t]], pos):
                pos += len(seq[idx[t]])
                order.append((t, idx[t]))
                idx[t] += 1
                break
        else:
            return False, f"unexpected bytes at offset {pos} after {order}"
    missing = [(t, i) for t, seq in enumerate(seqs) for i in range(idx[t], len(seq))]
    if missing:
        return False, f"never written: {missing} (written: {order})"
    return True, str(order)


def _expected_dwa(role, dwr_wire):
    """the node's answer to this DWR, produced by the single-threaded stand-in node (real code, no concurrency)"""
    from vf.standin import Node
    from bromelia.base import DiameterMessage
    n = Node(role, watchdog=10 ** 6)
    n.force_state("Open")
    n.assoc.state_is_active = True
    n.transport.events = [("busy", 1)]
    n.assoc._recv_messages.put(DiameterMessage.load(dwr_wire)[0])
    n.tick()
    return n.flush()


def outbound(sched: List[bool]) -> bool:
    """
    pre: len(sched) == P["K"]
    post: _
    """
    from vf import cosched as CS
    from vf.conode import CoNode
    from crosshair.core import IgnoreAttempt
    import bromelia.setup as S
    with untraced():
        S.SEND_BUFFER_MAXIMUM_SIZE = P.get("sendbuf", 4096 * 64)
        node = CoNode(P["role"], lines=P.get("lines", False))
        node.sock.send_plan = list(P.get("plan", []))
        subs, n = [], 0
        for kinds in P["submit"]:                      # one list per submitter thread
            ms = []
            for k in kinds:
                ms.append(_mk(k, n))
                n += 1
            subs.append(ms)
        seqs = [[m.dump() for m in ms] for ms in subs]
        inbound = P.get("inbound")
        if inbound == "dwr":
            w = build("dwr_ok")
            w.header.hop_by_hop, w.header.end_to_end = b"\x0e\x00\x00\x01", b"\x0e\x00\x00\x02"
            wire_in = w.dump()
            seqs.append([_expected_dwa(P["role"], wire_in)])      # the DWA the node must emit, as one more "submitter"
        elif inbound == "req":
            wire_in = _mk("app_req", 99).dump()
        else:
            wire_in = None

        def submitter(ms, batch):
            if batch:
                yield from node.d.send_messages(ms)
            else:
                for m in ms:
                    yield from node.d.send_message(m)

        def network():
            yield
            node.sock.inbox.append(wire_in)

        def finisher():
            yield CS.Timed(lambda: False)             # resumes only when nothing else can run

        s = CS.Sched(sched, max_preempt=P.get("maxp"))
        for i, ms in enumerate(subs):
            if P.get("presubmitted"):
                for m in ms:                          # already accepted (send queue) when the scheduled part starts
                    node.assoc._send_messages.put(m)
            else:
                s.spawn("T%d" % i, submitter(ms, P.get("batch", False)))
        s.spawn("F", finisher())
        s.eager.add("F")
        if wire_in is not None:
            s.spawn("N", network(), daemon=True)
        s.spawn("X", node.reader(), daemon=True)
        s.spawn("S", node.machine(), daemon=True)
        if wire_in is not None:
            s.spawn("W", node.worker(), daemon=True)
        try:
            s.run()
        except CS.Prune:
            raise IgnoreAttempt("schedule bound")
        except CS.Deadlock as d:
            reached()
            if REPLAY: note(deadlock=d.who, schedule="".join(x[0] for x in s.trace)[-200:])
            return False
        except (LIB + (Exception,)) as e:
            __import__('vf.h').h.reraise_if_harness(e)
            reached()
            if REPLAY: note(raised=f"{type(e).__name__}: {e}", schedule="".join(x[0] for x in s.trace))
            return False
        reached()
        sent = b"".join(node.sock.sent)
        ok, how = _match(sent, seqs)
        lock_free = not node.assoc.lock.locked() and not node.transport.lock.locked()
        if REPLAY: note(written=len(sent), expected=sum(len(b) for q in seqs for b in q), match=how, locks_free=lock_free,
                        schedule="".join(x[0] for x in s.trace))
        return ok and lock_free


def queries(tier, seed):
    t = 240 if tier == "quick" else 1800
    qs = []

    def add(name, params, what, **kw):
        qs.append(Q(name, "outbound", params, cto=kw.get("t", t), pto=kw.get("t", t), what=what, split=kw.get("split", 0)))
    LN = ["read", "_run", "_set_selector_events_mask", "send_message_from_queue", "write", "_write"]
    add("one/ops/P2", {"role": "CLIENT", "submit": [["app_req", "app_req"]], "K": 48, "maxp": 2},
        "1 submitter, 2 requests; submitter / state machine / transport at synchronisation-operation granularity, <= 2 preemptions")
    add("two/ops/P1", {"role": "CLIENT", "submit": [["app_req"], ["app_ans"]], "K": 48, "maxp": 1},
        "2 submitters (1 + 1 messages), <= 1 preemption")
    add("partial/ops/P2", {"role": "SERVER", "submit": [["app_req", "app_req"]], "plan": [7, 1], "K": 48, "maxp": 2},
        "socket accepts 7 bytes, then 1 byte, then everything: 1 submitter, 2 requests, <= 2 preemptions")
    add("one/lines/P2", {"role": "CLIENT", "submit": [["app_req", "app_req"]], "K": 64, "maxp": 2, "lines": LN},
        "preemption point before every statement of the transport / association send-path methods, <= 2 preemptions", split=2)
    add("inbound-dwr/ops/P1", {"role": "CLIENT", "submit": [["app_req"]], "presubmitted": True, "inbound": "dwr", "K": 64, "maxp": 1},
        "a request is in the send queue; a DWR arrives at an arbitrary moment (read event vs pending write; the DWA must be written too): network / transport / "
        "receive worker / state machine, <= 1 preemption")
    add("inbound-dwr/lines/P1", {"role": "CLIENT", "submit": [["app_req"]], "presubmitted": True, "inbound": "dwr", "K": 64, "maxp": 1,
                                 "lines": ["read", "write", "_set_selector_events_mask"]},
        "same with a preemption point before every statement of read(), write() and _set_selector_events_mask()", t=max(t, 600), split=3)
    one = len(_mk("app_req", 0).dump())
    add("batch4/sendbuf2/ops/P1", {"role": "CLIENT", "submit": [["app_req", "app_req", "app_req", "app_req"]], "batch": True, "sendbuf": 2 * one + 8, "K": 64, "maxp": 1},
        "send_messages() with 4 requests and a send buffer that holds two: the batch is cut twice, <= 1 preemption")
    add("oversize/ops/P1", {"role": "SERVER", "submit": [["app_req", "app_ans"]], "sendbuf": one - 4, "K": 64, "maxp": 1},
        "a request larger than the send buffer followed by a smaller answer (the buffer constant is patched below one message), <= 1 preemption")
    if tier != "quick":
        add("partial/lines/P2", {"role": "CLIENT", "submit": [["app_req", "app_req"]], "plan": [1, 30], "K": 64, "maxp": 2, "lines": LN},
            "partial writes 1, 30, rest with statement-level preemption, <= 2 preemptions")
        add("batch/sendbuf/ops/P2", {"role": "CLIENT", "submit": [["app_req", "app_req", "app_req"]], "batch": True, "sendbuf": 200, "K": 64, "maxp": 2},
            "send_messages() with 3 requests and a send buffer that holds two: batching over several ticks, <= 2 preemptions")
        add("two/partial/ops/P2", {"role": "SERVER", "submit": [["app_req"], ["app_ans"]], "plan": [1, 30], "K": 64, "maxp": 2},
            "2 submitters, partial writes, <= 2 preemptions")
        add("two/lines/P1", {"role": "SERVER", "submit": [["app_req"], ["app_ans"]], "K": 64, "maxp": 1, "lines": True},
            "2 submitters, statement-level preemption in all transport / association methods touching shared state, <= 1 preemption")
        add("inbound-req/partial/lines/P1", {"role": "SERVER", "submit": [["app_ans", "app_ans"]], "inbound": "req", "plan": [5], "K": 64, "maxp": 1, "lines": True},
            "an application request arrives while two answers are being sent with a partial write (~70 000 schedules)")
        add("inbound-dwr/partial/lines/P2", {"role": "CLIENT", "submit": [["app_req"]], "inbound": "dwr", "plan": [3], "K": 64, "maxp": 2, "lines": LN},
            "DWR arrival, partial write, <= 2 preemptions")
        add("one/ops/P4", {"role": "CLIENT", "submit": [["app_req", "app_req"]], "K": 64, "maxp": 4},
            "1 submitter, 2 requests, <= 4 preemptions")
        add("inbound-dwr/submitter/ops/P1", {"role": "CLIENT", "submit": [["app_req"]], "inbound": "dwr", "K": 64, "maxp": 1},
            "DWR arrival while a submitter thread is submitting (~16 000 schedules)")
        add("inbound-dwr/submitter/lines/P1", {"role": "CLIENT", "submit": [["app_req"]], "inbound": "dwr", "K": 64, "maxp": 1, "lines": LN},
            "DWR arrival, submitter thread, statement-level preemption in the whole send path (~67 000 schedules)", t=7200)
    return qs


BOUNDS = ["1-2 submitter threads with 1-3 messages in total; state-machine thread; transport thread; optional inbound DWR / request arriving at an arbitrary moment",
          "partial-write patterns: per query a fixed list of accepted byte counts (7,1 / 1,30 / 5), afterwards every send() accepts everything",
          "preemption at every synchronisation operation (all queries) and before every statement of the send-path methods ('lines' queries); <= 1-3 preemptions; K <= 64 decisions"]
OUTSIDE = ["more than 2 submitters / 3 messages", "bytecode-level preemption", "BlockingIOError from send() (treated by the library as fatal)", "SCTP", "real kernel sockets",
           "idle state-machine ticks are not scheduled freely (CoTime)"]
ASSUMPTIONS = ["stand-in primitives and scheduler (vf/cosched.py, vf/conode.py)", "level-triggered stand-in selector: a socket registered for EVENT_WRITE is always writable"]
