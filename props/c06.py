"""C06 - the peer state machine follows RFC 6733 and opens only for the configured peer.

One-step (inductive) encoding: the pre-state is a grid point (role, state) plus solver variables (local-stop flag,
peer-disconnect flag, connect ack/nack, idle counter / watchdog timeout / socket-activity flag, a queued outbound
message, and the head of the inbound queue drawn by a symbolic selector from a 17-kind event alphabet with symbolic
Hop-by-Hop / End-to-End); ONE tick of the real PeerStateMachine loop body runs on a stand-in transport and the outcome
(reported state, messages handed to the transport, delivery to the application, release of the transport, no
exception) is compared with a reference transition function transcribed from the property text.
Multi-step runs from Closed confirm that the pre-states are reachable.
"""
from typing import List

from vf.driver import Q
from vf.h import REPLAY, P, reached, note, lib_errors, ref_decode_msgs, admit, untraced, concrete
from vf.standin import Node, pump

from bromelia.base import DiameterMessage, DiameterHeader
from bromelia.avps import (OriginHostAVP, OriginRealmAVP, HostIpAddressAVP, VendorIdAVP, ProductNameAVP, ResultCodeAVP,
                           DisconnectCauseAVP, SessionIdAVP, DestinationRealmAVP, DestinationHostAVP, OriginStateIdAVP)

PROPERTY = "C06"
LEVEL = "model_checking"
LIB = lib_errors()

CLOSED, WCA, WICEA, OPEN, CLOSING, WRET, WELECT = "Closed", "Wait-Conn-Ack", "Wait-I-CEA", "Open", "Closing", "Wait-Returns", "Wait-Conn-Ack/Elect"
KINDS = ["cer_ok", "cer_wrong_host", "cer_wrong_realm", "cer_missing_avp", "cer_wrong_flags", "cea_ok", "cea_wrong_host",
         "dwr_ok", "dwr_wrong_host", "dwa_ok", "dwa_bad", "dpr_ok", "dpr_other_cause", "dpa", "app_req", "app_req_misaddressed", "app_ans",
         "cer_wrong_host_2ip", "cea_wrong_host_2ip"]


def _msg(flags, cmd, app, avps):
    return DiameterMessage(DiameterHeader(flags=flags, command_code=cmd, application_id=app), avps)


def build(kind):
    """a decoded-looking message of the given kind from the configured peer (peer.host / peer.realm)"""
    oh, orr = OriginHostAVP("peer.host"), OriginRealmAVP("peer.realm")
    ce = [HostIpAddressAVP("10.0.0.2"), VendorIdAVP(0), ProductNameAVP("peer")]
    if kind == "cer_ok":
        return _msg(0x80, 257, 0, [oh, orr] + ce)
    if kind == "cer_wrong_host":
        return _msg(0x80, 257, 0, [OriginHostAVP("evil.host"), orr] + ce)
    if kind == "cer_wrong_host_2ip":             # RFC 6733: 1* { Host-IP-Address } - a second address is legal
        return _msg(0x80, 257, 0, [OriginHostAVP("evil.host"), orr, HostIpAddressAVP("10.0.0.2"), HostIpAddressAVP("10.0.0.3")] + ce[1:])
    if kind == "cea_wrong_host_2ip":
        return _msg(0x00, 257, 0, [ResultCodeAVP(2001), OriginHostAVP("evil.host"), orr, HostIpAddressAVP("10.0.0.2"), HostIpAddressAVP("10.0.0.3")] + ce[1:])
    if kind == "cer_ok_2ip":
        return _msg(0x80, 257, 0, [oh, orr, HostIpAddressAVP("10.0.0.2"), HostIpAddressAVP("10.0.0.3")] + ce[1:])
    if kind == "cer_wrong_realm":
        return _msg(0x80, 257, 0, [oh, OriginRealmAVP("evil.realm")] + ce)
    if kind == "cer_missing_avp":
        return _msg(0x80, 257, 0, [oh, orr] + ce[:2])
    if kind == "cer_wrong_flags":
        bad = OriginHostAVP("peer.host")
        bad.set_mandatory_bit(False)
        return _msg(0x80, 257, 0, [bad, orr] + ce)
    if kind == "cea_ok":
        return _msg(0x00, 257, 0, [ResultCodeAVP(2001), oh, orr] + ce)
    if kind == "cea_wrong_host":
        return _msg(0x00, 257, 0, [ResultCodeAVP(2001), OriginHostAVP("evil.host"), orr] + ce)
    if kind == "dwr_ok":
        return _msg(0x80, 280, 0, [oh, orr])
    if kind == "dwr_wrong_host":
        return _msg(0x80, 280, 0, [OriginHostAVP("evil.host"), orr])
    if kind == "dwa_ok":
        return _msg(0x00, 280, 0, [ResultCodeAVP(2001), oh, orr])
    if kind == "dwa_bad":
        return _msg(0x00, 280, 0, [ResultCodeAVP(2001), OriginHostAVP("evil.host"), orr])
    if kind == "dpr_ok":
        return _msg(0x80, 282, 0, [oh, orr, DisconnectCauseAVP(b"\x00\x00\x00\x00")])
    if kind == "dpr_other_cause":
        return _msg(0x80, 282, 0, [oh, orr, DisconnectCauseAVP(b"\x00\x00\x00\x02")])
    if kind == "dpa":
        return _msg(0x00, 282, 0, [ResultCodeAVP(2001), oh, orr])
    if kind == "app_req":
        return _msg(0xc0, 316, 16777251, [SessionIdAVP(b"s;1;1"), oh, orr, DestinationRealmAVP("local.realm")])
    if kind == "app_req_misaddressed":
        return _msg(0xc0, 316, 16777251, [SessionIdAVP(b"s;1;1"), oh, orr, DestinationRealmAVP("other.realm"), DestinationHostAVP("other.host")])
    if kind == "app_ans":
        return _msg(0x40, 316, 16777251, [SessionIdAVP(b"s;1;1"), ResultCodeAVP(2001), oh, orr])
    raise KeyError(kind)


def reference(role, state, active, peer_gone, ack, idle_fire, has_send, kind):
    """-> (next state, emitted [(command, is_request)], delivered to application?) ; kind None = empty inbound queue"""
    E = []
    if state == CLOSED:
        if role == "CLIENT":
            return WCA, E, False
        if kind == "cer_ok":
            return OPEN, [(257, False)], False
        return CLOSED, E, False
    if state == WCA:
        if ack:
            return WICEA, [(257, True)], False
        return CLOSED, E, False
    if state == WICEA:
        if peer_gone:
            return CLOSED, E, False        # "a peer disconnect ... closes it": also while awaiting the CEA
        if kind is None or kind in ("cea_wrong_host", "cea_wrong_host_2ip"):
            return WICEA, E, False
        if kind == "cea_ok":
            return OPEN, E, False
        if kind == "cer_ok":
            return WRET, E, False          # election (as implemented: absorbing)
        if kind.startswith("cer_"):
            return WICEA, E, False         # an invalid CER is ignored (as implemented)
        return CLOSED, E, False            # anything else but a CEA while awaiting one closes the connection
    if state == OPEN:
        out = []                           # what the tick flushes besides answers, in queue order
        if has_send:
            out.append((316, True))
        if idle_fire:
            out.append((280, True))        # watchdog request after the configured idle time
        if peer_gone:
            return CLOSED, [], False       # peer disconnect closes the connection and releases the transport
        if not active:
            return CLOSING, out + [(282, True)], False      # local stop: one DPR (behind already queued data), then wait for the DPA
        if out:
            return OPEN, out, False
        if kind is None:
            return OPEN, [], False
        if kind == "dwr_ok":
            return OPEN, [(280, False)], False
        if kind == "cer_ok":
            return OPEN, [(257, False)], False
        if kind == "dpr_ok":
            return CLOSED, [(282, False)], False
        if kind == "dpr_other_cause":
            return CLOSED, [], False
        if kind == "dwa_bad":
            return CLOSING, [], False      # as implemented (open known finding of C03: no DPR is sent)
        if kind in ("app_req", "app_ans", "dpa"):
            return OPEN, [], True          # (a stray DPA in Open is passed on like an application answer - as implemented)
        return OPEN, [], False
    if state == CLOSING:
        if peer_gone or kind == "dpa":
            return CLOSED, E, False
        return CLOSING, E, False
    return state, E, False                 # the two election states are absorbing and silent


def step(active: bool, peer_gone: bool, ack: bool, quiet: bool, cnt: int, wt: int, has_send: bool, has_msg: bool,
         k: int, hbh: int, e2e: int) -> bool:
    """
    pre: 0 <= k < len(KINDS) and 0 <= hbh < 2**32 and 0 <= e2e < 2**32 and 0 <= cnt <= 10**6 and 1 <= wt <= 10**6
    pre: admit(active=active, peer_gone=peer_gone, has_send=has_send, has_msg=has_msg, k=k, quiet=quiet, cnt=cnt, wt=wt, state=P["state"], role=P["role"])
    pre: not P.get("pend") or (hbh == 0x01020304 and e2e == 0x0a0b0c0d)
    post: _
    """
    role, state = P["role"], P["state"]
    with untraced():
        node = Node(role)
        node.force_state(state)
    a, t = node.assoc, node.transport
    pend = P.get("pend")
    if pend:
        # the association's answer-matching registries in each shape an inbound message can meet (identifiers are dict keys
        # there, hence concrete in these queries): "match" - a request with these identifiers is outstanding; "dup" - it was,
        # and its answer has been consumed already (a retransmitted answer); "hbh_only" / "e2e_only" - one half is known
        with untraced():
            req = build("dwr_ok")
            req.header.hop_by_hop, req.header.end_to_end = (0x01020304).to_bytes(4, "big"), (0x0a0b0c0d).to_bytes(4, "big")
            other = build("dwr_ok")
            other.header.hop_by_hop, other.header.end_to_end = (0x01020304).to_bytes(4, "big"), (0x0b0b0b0b).to_bytes(4, "big")
            if pend in ("match", "dup", "e2e_only"):
                a.end_to_end_identifiers.append(req.header.end_to_end.hex())
            if pend == "match":
                a.pending_requests[req.header.hop_by_hop.hex()] = req
            if pend == "hbh_only":
                a.end_to_end_identifiers.append(other.header.end_to_end.hex())
                a.pending_requests[other.header.hop_by_hop.hex()] = other
    a.state_is_active = active
    t._stop_threads = peer_gone
    t.events = []
    if state == WCA and not ack:
        node.sock.closed = True                # connection refused: test_connection() fails
        t.test_connection = lambda: False      # (TcpConnection.test_connection only understands WinSock error 10057)
    if state != WCA:
        ack = True
    if state == OPEN:
        t.events = [] if quiet else [("k", 1)]
        t.tracking_events_count = cnt
        a.watchdog_timeout = wt
        if has_send:
            with untraced():
                out = build("app_req")
                out.header.hop_by_hop = 0x0a0b0c0d
            a._send_messages.put(out)
    else:
        has_send = False
    kind = None
    if state != WCA and has_msg:
        kind = KINDS[k]
        with untraced():
            m = build(kind)
        m.header.hop_by_hop = hbh
        m.header.end_to_end = e2e
        a._recv_messages.put(m)
    before = len(b"".join(node.sock.sent))
    try:
        node.tick()
    except (LIB + (Exception,)) as e:           # "no input makes the state machine raise or stop ticking"
        __import__('vf.h').h.reraise_if_harness(e)
        reached()
        if REPLAY: note(raised=f"{type(e).__name__}: {e}", state=state, kind=kind, pend=pend)
        return False
    reached()
    idle_fire = state == OPEN and quiet and cnt >= wt
    exp_state, exp_emit, exp_deliver = reference(role, state, active, peer_gone, ack, idle_fire, has_send, kind)
    got_state = node.state()
    reported = {OPEN: "I-Open" if role == "CLIENT" else "R-Open"}.get(exp_state, exp_state)
    handed = b"".join(node.sock.sent)[before:] + (node.handed() or b"")      # written during the tick + still attached
    emitted = [(h["command"], h["flags"] >= 128) for h, _ in ref_decode_msgs(bytes(handed))] if handed else []
    delivered = not a.postprocess_recv_messages.empty()
    released = a.transport is None
    if REPLAY: note(role=role, state=state, kind=kind, active=active, peer_gone=peer_gone, ack=ack, idle_fire=idle_fire, has_send=has_send,
                    got=[got_state, emitted, delivered, released], expected=[reported, exp_emit, exp_deliver, exp_state == CLOSED and state != CLOSED])
    ok = got_state == reported and emitted == exp_emit and delivered == exp_deliver
    if exp_state == CLOSED and state != CLOSED:
        ok = ok and released and node.sock.closed and not node.sel.reg
    if kind is not None and emitted and kind in ("cer_ok", "dwr_ok", "dpr_ok") and emitted[-1][1] is False:
        h = ref_decode_msgs(bytes(handed))[-1][0]
        ok = ok and h["hbh"] == hbh and h["e2e"] == e2e
    return ok and not a.lock.locked()


def watchdog_cadence(cnt: int, wt: int, d: int) -> bool:
    """
    pre: 0 <= cnt <= 10**6 and 1 <= wt <= 10**6 and 0 <= d <= 10**6
    post: _
    """
    # idle Open connection over two ticks: a watchdog request after the configured idle time, and the NEXT one only after
    # another full idle period (d further idle selector passes in between; each pass adds one to the idle counter)
    with untraced():
        node = Node(P["role"])
        node.force_state(OPEN)
    a, t = node.assoc, node.transport
    a.state_is_active = True
    t.events = []
    t.tracking_events_count = cnt
    a.watchdog_timeout = wt

    def dwrs(mark):
        data = b"".join(node.sock.sent)[mark:] + (node.handed() or b"")
        return [h for h, _ in ref_decode_msgs(bytes(data))] if data else []
    try:
        node.tick()
        first = dwrs(0)
        c1 = t.tracking_events_count             # whatever the implementation left after the first tick
        node.flush()                             # the transport thread writes the DWR: a few more selector passes
        passes = t.tracking_events_count - c1
        mark = len(b"".join(node.sock.sent))
        t.tracking_events_count = t.tracking_events_count + d      # plus d further idle passes
        t.events = []
        node.tick()
        second = dwrs(mark)
    except LIB as e:
        reached()
        return False
    reached()
    fired1 = cnt >= wt
    fired2 = (passes + d >= wt) if fired1 else (cnt + passes + d >= wt)
    if REPLAY: note(cnt=cnt, wt=wt, d=d, first=len(first), second=len(second), expected=[fired1, fired2])
    ok = len(first) == (1 if fired1 else 0) and len(second) == (1 if fired2 else 0)
    return ok and all(h["command"] == 280 and h["flags"] >= 128 for h in first + second) and node.state() in ("I-Open", "R-Open")


WALK = ["cer_ok", "cea_ok", "cea_wrong_host", "cer_wrong_realm", "dwr_ok", "dpr_ok", "dpa", "app_req"]


def walk(ev: List[int]) -> bool:
    """
    pre: len(ev) == P["n"] and all(0 <= e < len(WALK) + 2 for e in ev)
    post: _
    """
    # bounded multi-step confirmation from Closed: per tick one event (an inbound kind, local stop, or nothing);
    # Open is reported only after a Capabilities-Exchange with the configured peer; no tick raises; Closed => released
    ev = [concrete(e) for e in ev]           # realise the choice variables; everything below is concrete
    with untraced():
        role = P["role"]
        node = Node(role)
        enqueued = []
        for e in ev:
            if node.assoc.transport is None:
                break
            if e < len(WALK):
                enqueued.append(WALK[e])
                node.assoc._recv_messages.put(build(WALK[e]))
            elif e == len(WALK):
                node.assoc.state_is_active = False
            pre = node.state()
            try:
                node.tick()
                node.flush()
            except (LIB + (Exception,)) as ex:
                __import__('vf.h').h.reraise_if_harness(ex)
                reached()
                if REPLAY: note(raised=repr(ex), events=[WALK[x] if x < len(WALK) else "stop/none" for x in ev])
                return False
            st = node.state()
            if st in ("I-Open", "R-Open") and not ("cer_ok" in enqueued or "cea_ok" in enqueued):
                reached()
                if REPLAY: note(problem="Open without a valid capabilities exchange", events=enqueued)
                return False
            if st == "Closed" and pre != "Closed" and node.assoc.transport is not None:
                reached()
                if REPLAY: note(problem="Closed but the transport was not released", events=enqueued)
                return False
        reached()
        return True


STATES = [CLOSED, WCA, WICEA, OPEN, CLOSING, WRET, WELECT]


def queries(tier, seed):
    t = 150 if tier == "quick" else 900
    qs = []
    for role in ("CLIENT", "SERVER"):
        for st in STATES:
            if role == "SERVER" and st in (WCA, WICEA):
                continue
            qs.append(Q(f"step/{role}/{st.replace('/', '_')}", "step", {"role": role, "state": st}, cto=t, pto=t,
                        what=f"{role} in {st}: one tick from every pre-state (stop / disconnect / ack flags, idle counters, queued outbound, "
                             f"inbound head over {len(KINDS)} kinds with symbolic identifiers) vs the reference transition function"))
    for role, st in (("CLIENT", OPEN), ("SERVER", OPEN), ("CLIENT", WICEA), ("CLIENT", CLOSING)):
        for pend in ("match", "dup", "hbh_only", "e2e_only"):
            if tier == "quick" and (role, st, pend) not in (("CLIENT", OPEN, "dup"), ("SERVER", OPEN, "match"), ("SERVER", OPEN, "dup"), ("CLIENT", WICEA, "dup"),
                                                             ("CLIENT", OPEN, "hbh_only"), ("CLIENT", CLOSING, "dup")):
                continue
            qs.append(Q(f"step/{role}/{st.replace('/', '_')}/pending-{pend}", "step", {"role": role, "state": st, "pend": pend}, cto=t, pto=t,
                        what=f"{role} in {st}: the same one-tick query with the association's pending-request registries in shape '{pend}' "
                             f"relative to the inbound message's identifiers (outstanding / already answered = retransmitted answer / half known)"))
    for role in ("CLIENT", "SERVER"):
        qs.append(Q(f"watchdog_cadence/{role}", "watchdog_cadence", {"role": role}, cto=t, pto=t,
                    what=f"{role}: idle Open connection over two ticks, all idle counters / timeouts / gaps: one DWR per full idle period"))
    for role in ("CLIENT", "SERVER"):
        for n in ((3,) if tier == "quick" else (3, 4, 5)):
            qs.append(Q(f"walk/{role}/n{n}", "walk", {"role": role, "n": n}, cto=t, pto=t, what=f"{role}: every sequence of {n} events from Closed (reachability + safety)"))
    return qs


BOUNDS = ["7 states x 2 roles; inbound alphabet of 17 message kinds (valid / wrong host / wrong realm / missing AVP / wrong flags CER, CEA, DWR, DWA, "
          "DPR by cause, DPA, application request / misaddressed / answer) with symbolic Hop-by-Hop and End-to-End", "idle counter and watchdog timeout: all values 0..10^6",
          "one inbound message at the head of the queue, 0..1 queued outbound message", "pending-request registries: empty (identifiers symbolic) and four shapes relative to the inbound identifiers (identifiers concrete)", "multi-step walks of 3 (quick) / 5 events from Closed over an 8-kind alphabet + local stop + idle tick"]
OUTSIDE = ["the two unimplemented election states are only checked to be absorbing and silent", "SCTP", "real timers (time.sleep stubbed)",
           "combinations listed as open known findings (local stop / peer disconnect coinciding with queued traffic)"]
ASSUMPTIONS = ["reference transition function reference() transcribed from the property text", "stand-in transport; connect nack modelled by test_connection() == False"]
