"""C07 - base-protocol answers echo the identifiers of the request they answer.

Encoded (real code): Closed.event_responder_conn_cer, Open.event_open_rcv_dwr/dpr/cer, BaseMessageProcessor.create_answer,
State.send_message, put_message_into_send_queue, send_message_from_queue, the template builders in proxy.py, the real
transport write path on a stand-in socket; a second association on the same Diameter object (reconnect).
Symbolic: Hop-by-Hop and End-to-End (32 bits each) of every injected request; the sequence shape is a grid parameter
(1-3 back-to-back base requests, optionally with application traffic in between or a queued outbound backlog).
Oracle: the bytes written to / attached to the stand-in transport are decoded with the REFERENCE decoder.
"""
from typing import List

from vf.driver import Q
from vf.h import REPLAY, P, reached, note, lib_errors, ref_decode_msgs, untraced
from vf import standin as SI
from vf.standin import Node

import bromelia.setup as S
from props.c06 import build

PROPERTY = "C07"
LEVEL = "model_checking"
LIB = lib_errors()
CMD = {"cer_ok": 257, "dwr_ok": 280, "dpr_ok": 282}


def _answers(node, mark):
    """messages handed over since byte offset `mark`: written to the socket + still attached to the selector"""
    data = b"".join(node.sock.sent)[mark:] + (node.handed() or b"")
    return ref_decode_msgs(bytes(data)) if data else []


def echo(ids: List[int]) -> bool:
    """
    pre: len(ids) == 2 * len(P["seq"]) and all(0 <= x < 2**32 for x in ids)
    post: _
    """
    seq = P["seq"]
    with untraced():
        node = Node(P["role"], watchdog=10 ** 6)
        if P["start"] == "Open":
            node.force_state("Open")
            node.assoc.state_is_active = True
            node.transport.events = [("busy", 1)]
        if P["start"] == "Closing":              # local stop requested, DPR sent, DPA not yet received: crossing requests
            node.force_state("Closing")
            node.assoc.state_is_active = False
            node.transport.events = [("busy", 1)]
        if P.get("backlog"):
            S.SEND_BUFFER_MAXIMUM_SIZE = len(build("app_req").dump()) + 8     # exactly one queued message fits per flush
                                                                               # (behaviour is parametric in the constant)
            for i in range(P["backlog"]):
                m = build("app_req")
                m.header.hop_by_hop = 0x0b000000 + i
                node.assoc._send_messages.put(m)
        else:
            S.SEND_BUFFER_MAXIMUM_SIZE = 4096 * 64
        msgs = [build(k) for k in seq]
    base_reqs = []
    for i, (k, m) in enumerate(zip(seq, msgs)):
        if k in CMD:
            m.header.hop_by_hop = ids[2 * i]
            m.header.end_to_end = ids[2 * i + 1]
            base_reqs.append((CMD[k], ids[2 * i], ids[2 * i + 1]))
        node.assoc._recv_messages.put(m)          # all in the queue before the first tick: the aliasing hazard
    got = []
    for tick in range(len(seq) + P.get("backlog", 0) + 2):
        if node.assoc.transport is None:
            break
        mark = len(b"".join(node.sock.sent))
        pending_before = node.assoc._recv_messages.qsize()
        try:
            node.tick()
        except LIB as e:
            reached()
            if REPLAY: note(raised=type(e).__name__)
            return False
        new = [(h, a) for h, a in _answers(node, mark) if h["flags"] < 128 and h["command"] in (257, 280, 282)]
        consumed = pending_before - node.assoc._recv_messages.qsize()
        if consumed > 1:
            reached()
            return False                          # more than one inbound message processed in a tick
        with untraced():
            still = list(getattr(node.assoc._recv_messages, "queue", []))
            done_ = [not any(q is m for q in still) for m in msgs]
        if any(done_[j] and not done_[i] for i in range(len(msgs)) for j in range(i + 1, len(msgs))):
            reached()
            if REPLAY: note(problem="a later inbound message was processed while an earlier one (a base request) was still waiting", processed=done_)
            return False                          # "emitted before any later inbound message is processed": inbound order is kept
        got += new
        if node.assoc.transport is not None:
            node.flush()                          # transport thread runs between ticks
    reached()
    if REPLAY: note(requests=base_reqs, answers=[(h["command"], h["hbh"], h["e2e"]) for h, _ in got])
    if P.get("lenient"):
        # states in which a request may legitimately go unanswered (Closing): whatever base answer IS emitted must still answer
        # exactly one received request - match the answers, in order, against a subsequence of the requests
        pool, matched = list(base_reqs), []
        for h, avps in got:
            while pool and not (pool[0][0] == h["command"] and pool[0][1] == h["hbh"] and pool[0][2] == h["e2e"]):
                pool.pop(0)
            if not pool:
                return False
            matched.append(pool.pop(0))
        base_reqs = matched
    if len(got) != len(base_reqs):
        return False
    ok = True
    for (cmd, hbh, e2e), (h, avps) in zip(base_reqs, got):
        ok = ok and h["command"] == cmd and h["flags"] < 128 and h["hbh"] == hbh and h["e2e"] == e2e
        codes = {c: d for c, _, _, d in avps}
        ok = ok and codes.get(264) == b"local.host" and codes.get(296) == b"local.realm" and 268 in codes
    return ok


def reconnect(ids: List[int]) -> bool:
    """
    pre: len(ids) == 4 and all(0 <= x < 2**32 for x in ids)
    post: _
    """
    # server: CER/CEA, DPR/DPA closes; the SAME Diameter object is started again (shared answer templates survive);
    # a second peer connection sends a CER with other identifiers
    with untraced():
        node = Node("SERVER", watchdog=10 ** 6)
        c1, c2 = build("cer_ok"), build("cer_ok")
        d1 = build("dpr_ok")
    c1.header.hop_by_hop, c1.header.end_to_end = ids[0], ids[1]
    c2.header.hop_by_hop, c2.header.end_to_end = ids[2], ids[3]
    d1.header.hop_by_hop, d1.header.end_to_end = ids[1], ids[0]
    out = []
    try:
        node.assoc._recv_messages.put(c1)
        node.tick()
        node.flush()
        node.assoc._recv_messages.put(d1)
        node.tick()
        first = ref_decode_msgs(b"".join(node.sock.sent))
        if node.state() != "Closed":
            reached()
            return False
        with untraced():
            node2 = Node("SERVER", reuse=node)          # same Diameter object, same base templates, new association
        node2.assoc._recv_messages.put(c2)
        node2.tick()
        node2.flush()
        second = ref_decode_msgs(b"".join(node2.sock.sent))
    except LIB as e:
        reached()
        if REPLAY: note(raised=type(e).__name__)
        return False
    reached()
    if REPLAY: note(first=[(h["command"], h["hbh"], h["e2e"]) for h, _ in first], second=[(h["command"], h["hbh"], h["e2e"]) for h, _ in second])
    ok = len(first) == 2 and len(second) == 1
    if not ok:
        return False
    ok = first[0][0]["command"] == 257 and first[0][0]["hbh"] == ids[0] and first[0][0]["e2e"] == ids[1]
    ok = ok and first[1][0]["command"] == 282 and first[1][0]["hbh"] == ids[1] and first[1][0]["e2e"] == ids[0]
    ok = ok and second[0][0]["command"] == 257 and second[0][0]["hbh"] == ids[2] and second[0][0]["e2e"] == ids[3] and second[0][0]["flags"] < 128
    return ok and node2.state() == "R-Open"


def queries(tier, seed):
    t = 120 if tier == "quick" else 900
    qs = []
    seqs = [("SERVER", "Closed", ["cer_ok"]), ("CLIENT", "Open", ["dwr_ok"]), ("SERVER", "Open", ["dwr_ok", "dwr_ok"]),
            ("CLIENT", "Open", ["dwr_ok", "cer_ok"]), ("SERVER", "Open", ["cer_ok", "dwr_ok", "dpr_ok"]), ("CLIENT", "Open", ["dwr_ok", "app_req", "dwr_ok"]),
            ("SERVER", "Closed", ["cer_ok", "dwr_ok", "dwr_ok"]), ("SERVER", "Open", ["app_req", "dwr_ok", "app_req"]),
            ("CLIENT", "Open", ["app_ans", "dpr_ok", "app_req"])]
    if tier != "quick":
        seqs += [("CLIENT", "Open", ["dwr_ok", "dwr_ok", "dwr_ok"]), ("SERVER", "Open", ["cer_ok", "cer_ok", "dpr_ok"]), ("CLIENT", "Open", ["app_ans", "dwr_ok", "dpr_ok"]),
                 ("SERVER", "Open", ["dwr_ok", "dwa_ok", "dwr_ok"]), ("CLIENT", "Open", ["dpr_ok"]), ("SERVER", "Closed", ["cer_ok", "dpr_ok"])]
    for role, start, seq in seqs:
        qs.append(Q(f"echo/{role}/{start}/{'-'.join(s.split('_')[0] for s in seq)}", "echo", {"role": role, "start": start, "seq": seq}, cto=t, pto=t,
                    what=f"{role} from {start}: back-to-back {seq}, all identifiers symbolic"))
    closing = [("CLIENT", ["dpr_ok"]), ("SERVER", ["dwr_ok", "dpr_ok"])] if tier == "quick" else \
        [("CLIENT", ["dpr_ok"]), ("SERVER", ["dwr_ok", "dpr_ok"]), ("SERVER", ["dpr_ok", "dpr_ok"]), ("CLIENT", ["cer_ok", "dpr_ok", "dwr_ok"])]
    for role, seq in closing:
        qs.append(Q(f"echo/{role}/Closing/{'-'.join(s.split('_')[0] for s in seq)}", "echo", {"role": role, "start": "Closing", "seq": seq, "lenient": True}, cto=t, pto=t,
                    what=f"{role} in Closing (own DPR sent, crossing requests {seq} arrive): requests may go unanswered there, but every base answer "
                         f"emitted must carry the identifiers of one received request"))
    for role, seq, n in ((("SERVER", ["dwr_ok", "dwr_ok"], 6),) if tier == "quick" else (("SERVER", ["dwr_ok", "dwr_ok"], 6), ("CLIENT", ["dwr_ok", "cer_ok", "dwr_ok"], 8), ("SERVER", ["dwr_ok", "dwr_ok", "dwr_ok"], 12))):
        qs.append(Q(f"echo/{role}/backlog{n}/{'-'.join(s.split('_')[0] for s in seq)}", "echo", {"role": role, "start": "Open", "seq": seq, "backlog": n}, cto=t, pto=t,
                    what=f"{role} Open with {n} queued outbound messages exceeding the send buffer (send-buffer constant patched so that one message fits per flush): back-to-back {seq}"))
    qs.append(Q("reconnect", "reconnect", {}, cto=t, pto=t, what="CER/CEA, DPR/DPA, restart of the same node object, second CER: all identifiers symbolic"))
    return qs


BOUNDS = ["sequences of 1-3 base requests (CER, DWR, DPR) back-to-back in the inbound queue, optionally interleaved with application traffic or behind an "
          "outbound backlog; every Hop-by-Hop / End-to-End value (equal and distinct values arise as cases)", "states Closed (server), Open and Closing (crossing requests after a local stop), both roles; one reconnect"]
OUTSIDE = ["identifiers of locally generated requests (dict keys, concrete)", "sequences longer than 3", "real sockets and timing (stand-in transport; the transport thread body runs "
           "between ticks and while the state machine sleeps / waits for write mode)"]
ASSUMPTIONS = ["reference decoder", "SEND_BUFFER_MAXIMUM_SIZE patched to one message + 8 bytes in the backlog queries (behaviour is parametric in the constant)"]
