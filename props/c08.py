"""C08 - every way a connection ends leaves the node closed, released and restartable.

The REAL Diameter.close/get_message, DiameterAssociation.close/get_message/recv_message_from_queue, the state-machine
loop with every state's run()/event handlers, PeerStateMachine.get_next_state, TcpConnection._run/read/write/close/
test_connection and TcpServer.close are re-compiled from the current source as coroutines on stand-in
Lock/Event/Queue/selector/socket objects (vf/conode.py).  Threads: transport (X), receive worker (W), state machine (S),
optionally an application consumer blocked in get_message (A), an application thread calling close() at an arbitrary
moment (C), and the peer (N: sends a DPR / answers our DPR with a DPA / disconnects / resets, at arbitrary moments).
Every scheduling decision is a boolean solver variable (E3).  Grid: termination cause x point in the connection life.
Oracle, evaluated once the system has settled (nothing but timeouts for several rounds):
  state Closed; socket closed and unregistered (server: also the listening socket); transport released by the
  association; X, W, S terminated; a consumer blocked in get_message has returned; no lock held; Diameter.start() passes
  its guard and a second association on the same node object answers a DWR.
"""
from typing import List

from vf.driver import Q
from vf.h import REPLAY, P, reached, note, lib_errors, untraced, ref_decode_msgs
from props.c06 import build

PROPERTY = "C08"
LEVEL = "model_checking"
LIB = lib_errors()


def _ids(m, n):
    m.header.hop_by_hop = (0x0e000000 + n).to_bytes(4, "big")
    m.header.end_to_end = (0x0f000000 + n).to_bytes(4, "big")
    return m


def _sent_cmds(node):
    try:
        return [(h["command"], h["flags"] >= 128, h["hbh"]) for h, _ in ref_decode_msgs(b"".join(node.sock.sent))]
    except Exception:
        return []


def _restart(node, role):
    """the same Diameter object is started again: start()'s guard, then a fresh association answers a DWR"""
    import bromelia.setup as S
    from vf import cosched as CS
    from vf.conode import CoNode
    made = []

    class _Assoc:
        def __init__(self, conn, base):
            made.append("assoc")

        def start(self):
            made.append("assoc.start")

    class _Psm:
        def __init__(self, assoc):
            made.append("psm")

        def start(self):
            made.append("psm.start")

        def get_current_state(self):
            return "Closed"
    keep = (S.DiameterAssociation, S.PeerStateMachine)
    S.DiameterAssociation, S.PeerStateMachine = _Assoc, _Psm
    try:
        S.Diameter.start(node.d)
    except LIB as e:
        return f"start() refused: {type(e).__name__}: {e}"
    finally:
        S.DiameterAssociation, S.PeerStateMachine = keep
    if made != ["assoc", "psm", "psm.start", "assoc.start"]:
        return f"start() did {made}"
    n2 = CoNode(role, reuse=node)
    w = _ids(build("dwr_ok"), 77)
    n2.sock.inbox.append(w.dump())
    s = CS.Sched([True] * 64)

    def done():
        yield (lambda: any(c == 280 and not r for c, r, _ in _sent_cmds(n2)))
    s.spawn("D", done())
    s.spawn("X", n2.reader(), daemon=True)
    s.spawn("W", n2.worker(), daemon=True)
    s.spawn("S", n2.machine(), daemon=True)
    try:
        s.run()
    except (CS.Deadlock, CS.Prune) as e:
        return f"restarted node did not answer a DWR: {e}"
    return None


def ends(sched: List[bool]) -> bool:
    """
    pre: len(sched) == P["K"]
    post: _
    """
    from vf import cosched as CS
    from vf.conode import CoNode
    from crosshair.core import IgnoreAttempt
    from bromelia.config import CLOSED
    with untraced():
        role, cause, start = P["role"], P["cause"], P.get("start", "Open")
        node = CoNode(role, lines=P.get("lines", False), state=start, points=("send",))
        a, t = node.assoc, node.transport
        if cause == "refused":
            node.sock.send_plan = ["refused", "pipe"]
        if P.get("inbound"):                              # an application request already parsed, not yet consumed
            a._recv_messages.put(_ids(build("app_req"), 5))
        if P.get("outbound"):
            a._send_messages.put(_ids(build("app_req"), 6))
        got = []

        def consumer():
            m = yield from node.d.get_message()
            got.append("msg" if m is not None else "none")

        def closer():
            yield
            r = node.d.close()                 # not blocking on the current tree; a coroutine if some tree makes it block
            if hasattr(r, "send"):
                yield from r

        def peer():
            if cause == "peer_dpr":
                yield
                node.sock.inbox.append(_ids(build("dpr_ok"), 9).dump())
                yield (lambda: any(c == 282 and not r for c, r, _ in _sent_cmds(node)) or node.sock.closed)
                node.sock.peer_closed = True
            elif cause == "peer_disc":
                yield
                node.sock.peer_closed = True
            elif cause == "peer_reset":
                yield
                node.sock.recv_error = True
            elif cause == "local_close":
                # the peer answers our DPR (echoing its Hop-by-Hop), then closes its side
                yield (lambda: any(c == 282 and r for c, r, _ in _sent_cmds(node)))
                dpr = [x for x in _sent_cmds(node) if x[0] == 282 and x[1]][0]
                dpa = build("dpa")
                dpa.header.hop_by_hop = dpr[2].to_bytes(4, "big") if isinstance(dpr[2], int) else dpr[2]
                node.sock.inbox.append(dpa.dump())
                yield (lambda: node.sock.closed)
            elif cause == "local_close_setup":
                # close() is called while the capabilities exchange is still under way; the peer completes the exchange and
                # answers a DPR if one comes
                yield
                node.sock.inbox.append(_ids(build("cea_ok"), 3).dump())
                yield (lambda: any(c == 282 and r for c, r, _ in _sent_cmds(node)))
                dpr = [x for x in _sent_cmds(node) if x[0] == 282 and x[1]][0]
                dpa = build("dpa")
                dpa.header.hop_by_hop = dpr[2].to_bytes(4, "big") if isinstance(dpr[2], int) else dpr[2]
                node.sock.inbox.append(dpa.dump())
            elif cause == "local_close_no_dpa":
                # the peer never answers the DPR; it drops the connection instead
                yield (lambda: any(c == 282 and r for c, r, _ in _sent_cmds(node)))
                yield
                node.sock.peer_closed = True

        def finisher():
            yield CS.Timed(lambda: False)

        crashed = {}

        def guard(name, gen):
            # an exception escaping a worker thread's body ends that thread (the property asks for termination, which this
            # is); it is reported in the replay notes, not as a violation
            try:
                yield from gen
            except (LIB + (Exception,)) as e:
                __import__('vf.h').h.reraise_if_harness(e)
                crashed[name] = f"{type(e).__name__}: {e}"

        from vf.conode import CoTime
        CoTime.polite = P.get("delays") is not None
        s = CS.Sched(sched, max_preempt=P.get("maxp"), delays=P.get("delays"))
        s.spawn("F", finisher())
        s.lazy.add("F")
        if P.get("consumer"):
            s.spawn("A", consumer())
        if cause.startswith("local_close"):
            s.spawn("C", closer())
        th = P.get("threads", "NXWS")
        if "N" in th:
            s.spawn("N", peer(), daemon=True)
        s.spawn("X", guard("X", node.reader()), daemon=True)
        if "W" in th:
            s.spawn("W", guard("W", node.worker()), daemon=True)
        s.spawn("S", guard("S", node.machine()), daemon=True)
        problems = []
        try:
            s.run()
        except CS.Prune:
            raise IgnoreAttempt("schedule bound")
        except CS.Deadlock as d:
            problems.append(f"never returns: {d.who}")
        except (LIB + (Exception,)) as e:
            __import__('vf.h').h.reraise_if_harness(e)
            problems.append(f"raised {type(e).__name__}: {e}")
        reached()
        if not problems:
            if node.state() != CLOSED:
                problems.append(f"state {node.state()}")
            for name in ("X", "W", "S"):
                if name in th and name not in s.finished:
                    problems.append(f"thread {name} still running")
            if not node.sock.closed:
                problems.append("socket not closed")
            if node.sel.reg:
                problems.append("socket still registered")
            if role != "CLIENT" and not t.server_sock.closed:
                problems.append("listening socket not closed")
            if a.transport is not None:
                problems.append("association keeps the transport")
            if a.lock.locked() or a.postprocess_recv_messages_lock.locked():
                problems.append("association lock held")      # application calls on this node object would block for ever
            # (the lock of the discarded transport object may stay held by a transport thread that ended by exception: noted only)
            if P.get("consumer") and not got:
                problems.append("consumer still blocked")
            if not problems:
                r = _restart(node, role)
                if r:
                    problems.append(r)
        if REPLAY: note(problems=problems, consumer=got, threads_ended_by_exception=crashed, transport_lock_left_held=t.lock.locked(), schedule="".join(x[0] for x in s.trace)[-200:], sent=[(c, r) for c, r, _ in _sent_cmds(node)])
        return not problems


def _cmds(sock):
    try:
        return [(h["command"], h["flags"] >= 128, h["hbh"], h["e2e"]) for h, _ in ref_decode_msgs(b"".join(sock.sent))]
    except Exception:
        return []


def life(sched: List[bool]) -> bool:
    """
    pre: len(sched) == P["K"]
    post: _
    """
    # the whole life of a node object, from the REAL Diameter.start() (association, state machine and transport objects and
    # their threads are created by the code under test) to the end of the connection, then start() again on the same object
    from vf import cosched as CS
    from vf.conode import CoBoot, CoTime
    from crosshair.core import IgnoreAttempt
    from bromelia.config import CLOSED
    with untraced():
        role, scen = P["role"], P["scen"]
        s = CS.Sched(sched, max_preempt=P.get("maxp"), delays=P.get("delays"))
        refused = scen == "refused"
        boot = CoBoot(role, s, lines=P.get("lines", False), points=("send",),
                      connect_results=[P.get("connect", 115), 115], send_plans=[["refused", "pipe"] if refused else [], []])
        CoTime.polite = P.get("delays") is not None
        info, got = {}, []

        def starter(tag):
            try:
                r = boot.d.start()
                if hasattr(r, "send"):
                    yield from r
                info[tag] = "returned"
            except (LIB + (Exception,)) as e:
                __import__('vf.h').h.reraise_if_harness(e)
                import traceback
                info[tag] = f"raised {type(e).__name__}: {e}"
                if REPLAY: info[tag + "_tb"] = "".join(traceback.format_tb(e.__traceback__)[-3:])[-600:]

        def consumer():
            yield (lambda: boot.assoc is not None)
            m = yield from boot.d.get_message()
            got.append("msg" if m is not None else "none")

        def closer():
            yield (lambda: boot.state() in ("I-Open", "R-Open"))
            yield
            r = boot.d.close()
            if hasattr(r, "send"):
                yield from r

        def handshake(sock):
            """peer side of the capabilities exchange on `sock`"""
            if role == "CLIENT":
                yield (lambda: any(c == 257 and r for c, r, _, _ in _cmds(sock)) or sock.closed)
                if sock.closed:
                    return False
                cer = [x for x in _cmds(sock) if x[0] == 257 and x[1]][0]
                cea = build("cea_ok")
                cea.header.hop_by_hop, cea.header.end_to_end = cer[2].to_bytes(4, "big"), cer[3].to_bytes(4, "big")
                sock.inbox.append(cea.dump())
            else:
                sock.inbox.append(_ids(build("cer_ok"), 1).dump())
                yield (lambda: any(c == 257 and not r for c, r, _, _ in _cmds(sock)) or sock.closed)
            return not sock.closed

        def peer():
            if refused:
                return
            if role == "CLIENT":
                yield (lambda: boot.sock is not None)
                sock = boot.sock
            else:
                yield (lambda: bool(boot.listeners))
                yield
                sock = boot.connect()
            ok = yield from handshake(sock)
            if not ok:
                return
            if scen != "local_close":            # (the peer of a local close only reacts to the DPR, whenever it comes)
                yield (lambda: boot.state() in ("I-Open", "R-Open"))
            if scen == "peer_dpr":
                yield
                sock.inbox.append(_ids(build("dpr_ok"), 9).dump())
                yield (lambda: any(c == 282 and not r for c, r, _, _ in _cmds(sock)) or sock.closed)
                sock.peer_closed = True
            elif scen == "peer_disc":
                yield
                sock.peer_closed = True
            elif scen == "peer_disc_leftover":
                # the peer sends two application requests and drops the connection at once: whatever of them is still parsed
                # but unread, or half received, when the connection ends belongs to THIS connection only
                yield
                sock.inbox.append(_ids(build("app_req"), 21).dump() + _ids(build("app_req"), 22).dump()[:40])
                yield
                sock.peer_closed = True
            elif scen == "peer_reset":
                yield
                sock.recv_error = True
            elif scen == "local_close":
                yield (lambda: any(c == 282 and r for c, r, _, _ in _cmds(sock)) or sock.closed)
                if sock.closed:
                    return
                dpr = [x for x in _cmds(sock) if x[0] == 282 and x[1]][0]
                dpa = build("dpa")
                dpa.header.hop_by_hop, dpa.header.end_to_end = dpr[2].to_bytes(4, "big"), dpr[3].to_bytes(4, "big")
                sock.inbox.append(dpa.dump())
                yield (lambda: sock.closed)

        def finisher():
            yield CS.Timed(lambda: False)

        s.spawn("F", finisher())
        s.lazy.add("F")
        s.spawn("M", starter("first"), daemon=True)          # the application thread calling start()
        if P.get("consumer"):
            s.spawn("A", consumer())
        if scen == "local_close":
            s.spawn("C", closer())
        s.spawn("N", peer(), daemon=True)
        problems = []
        try:
            s.run()
        except CS.Prune:
            raise IgnoreAttempt("schedule bound")
        except CS.Deadlock as d:
            problems.append(f"never returns: {d.who}")
        except (LIB + (Exception,)) as e:
            __import__('vf.h').h.reraise_if_harness(e)
            problems.append(f"raised {type(e).__name__}: {e}")
        reached()
        a, t, sock = boot.assoc, boot.transport, boot.sock
        if not problems:
            if "first" not in info:
                problems.append("start() never returned")
            if boot.state() != CLOSED:
                problems.append(f"state {boot.state()}")
            for name in boot.threads:
                if name not in s.finished:
                    problems.append(f"thread {name} still running")
            for k, so in enumerate(boot.socks + boot.listeners):
                if not so.closed:
                    problems.append(f"socket {k} not closed")
            for sel in boot.selectors:
                if sel.reg:
                    problems.append("a socket is still registered with its selector")
            if a is not None and a.transport is not None:
                problems.append("association keeps the transport")
            if a is not None and (a.lock.locked() or a.postprocess_recv_messages_lock.locked()):
                problems.append("association lock held")
            if P.get("consumer") and not got:
                problems.append("consumer still blocked")
        first_threads = list(boot.threads)
        if not problems:
            # the same node object is started again: the REAL start(), a fresh connection that succeeds, CER/CEA, DWR/DWA
            n_socks = len(boot.socks)
            s2 = CS.Sched([True] * 96)
            boot.sched = s2
            done = []

            def peer2():
                if role == "CLIENT":
                    yield (lambda: len(boot.socks) > n_socks)
                    so = boot.socks[-1]
                else:
                    yield (lambda: len(boot.listeners) > 1)
                    so = boot.connect()
                ok = yield from handshake(so)
                if not ok:
                    done.append("handshake failed")
                    return
                yield (lambda: boot.state() in ("I-Open", "R-Open"))
                so.inbox.append(_ids(build("dwr_ok"), 77).dump())
                yield (lambda: any(c == 280 and not r for c, r, _, _ in _cmds(so)))
                a2 = boot.assoc
                stale = a2.postprocess_recv_messages.qsize() + a2._recv_messages.qsize()
                done.append("ok" if stale == 0 else f"{stale} message(s) of the previous connection surfaced on the new one")
            s2.spawn("N", peer2())
            s2.spawn("M", starter("second"), daemon=True)
            try:
                s2.run()
            except (CS.Deadlock, CS.Prune) as e:
                problems.append(f"restarted node did not complete CER/CEA + DWR/DWA: {e} (start(): {info.get('second')})")
            except (LIB + (Exception,)) as e:
                __import__('vf.h').h.reraise_if_harness(e)
                problems.append(f"restart raised {type(e).__name__}: {e}")
            if not problems and done != ["ok"]:
                problems.append(f"restart: {done}, start(): {info.get('second')}")
        boot.restore()
        if REPLAY: note(problems=problems, start=info, consumer=got, threads=first_threads, threads_ended_by_exception=boot.crashed,
                        schedule="".join(x[0] for x in s.trace)[-200:], sent=[[(c, r) for c, r, _, _ in _cmds(so)] for so in boot.socks])
        return not problems


LIFE = [
    ("life/client/refused-async", {"role": "CLIENT", "scen": "refused", "connect": 115}),
    ("life/client/refused-sync", {"role": "CLIENT", "scen": "refused", "connect": 111}),
    ("life/client/peer_dpr/consumer", {"role": "CLIENT", "scen": "peer_dpr", "consumer": True}),
    ("life/client/local_close", {"role": "CLIENT", "scen": "local_close"}),
    ("life/client/peer_reset", {"role": "CLIENT", "scen": "peer_reset"}),
    ("life/server/peer_disc/consumer", {"role": "SERVER", "scen": "peer_disc", "consumer": True}),
    ("life/server/local_close", {"role": "SERVER", "scen": "local_close"}),
    ("life/server/peer_dpr", {"role": "SERVER", "scen": "peer_dpr"}),
    ("life/client/peer_disc_leftover", {"role": "CLIENT", "scen": "peer_disc_leftover"}),
    ("life/server/peer_disc_leftover", {"role": "SERVER", "scen": "peer_disc_leftover"}),
]


GRID = [
    # name, params
    ("open/local_close", {"role": "CLIENT", "cause": "local_close"}),
    ("open/local_close/consumer", {"role": "SERVER", "cause": "local_close", "consumer": True}),
    ("open/peer_dpr/consumer", {"role": "CLIENT", "cause": "peer_dpr", "consumer": True}),
    ("open/peer_dpr/queued", {"role": "SERVER", "cause": "peer_dpr", "inbound": True, "outbound": True}),
    ("open/peer_disc/consumer", {"role": "CLIENT", "cause": "peer_disc", "consumer": True}),
    ("open/peer_reset", {"role": "SERVER", "cause": "peer_reset", "outbound": True}),
    ("open/local_close_no_dpa/consumer", {"role": "CLIENT", "cause": "local_close_no_dpa", "consumer": True}),
    ("setup/refused", {"role": "CLIENT", "cause": "refused", "start": "Wait-Conn-Ack", "threads": "XS"}),
    ("setup/local_close/wait-i-cea", {"role": "CLIENT", "cause": "local_close_setup", "start": "Wait-I-CEA"}),
    ("setup/peer_disc/wait-i-cea", {"role": "CLIENT", "cause": "peer_disc", "start": "Wait-I-CEA"}),
    ("setup/peer_disc/server-closed", {"role": "SERVER", "cause": "peer_disc", "start": "Closed"}),
]


TEARDOWN = ["get_message", "get_postprocess_recv_message", "set_closed_state", "close", "notify_postprocess_message", "get_next_state", "_run",
            "recv_message_from_queue"]


def queries(tier, seed):
    t = 480 if tier == "quick" else 2400
    qs = []

    def add(name, params, extra, what, fn="ends"):
        p = dict(params)
        p.update(extra)
        qs.append(Q(name, fn, p, cto=t, pto=t, what=f"{params}: {what}"))
    D = 4 if tier == "quick" else 7
    for name, params in GRID:
        dd = D - 1 if "queued" in name else D
        add(f"{name}/ops/D{dd}", params, {"K": 96, "delays": dd},
            f"round-robin scheduler with <= {dd} solver-chosen delays, preemption points at every synchronisation operation")
    for name, params in ([GRID[1], GRID[2], GRID[4]] if tier == "quick" else GRID):
        d = 2 if tier == "quick" else 3
        add(f"{name}/lines/D{d}", params, {"K": 200, "delays": d, "lines": TEARDOWN},
            f"<= {d} delays with a preemption point before every statement of the teardown / hand-over methods")
    LD = 2 if tier == "quick" else 4
    for name, params in LIFE:
        add(f"{name}/ops/D{LD}", params, {"K": 128, "delays": LD},
            f"from the real Diameter.start() to the end of the connection and a real second start() (CER/CEA, DWR/DWA): round-robin scheduler with <= {LD} delays", fn="life")
    if tier != "quick":
        for name, params in (GRID[4], GRID[7]):
            add(f"{name}/ops/P1", params, {"K": 64, "maxp": 1}, "preemption-bounded: every schedule with <= 1 preemption (free choice at every blocking point)")
    return qs


BOUNDS = ["life/* queries: the node object is driven from the REAL Diameter.start() (PeerStateMachine.start, DiameterAssociation.start, TcpClient/TcpServer.start and run, every "
          "Thread(...).start() in them) on stand-in socket.socket / DefaultSelector / Thread; connect_ex() returns EINPROGRESS or ECONNREFUSED (refused synchronously / "
          "asynchronously), the server accepts one inbound connection; endings: refused, DPR from the peer, peer disconnect, peer reset, local close answered by a DPA; "
          "then the REAL start() again on the same object with a connection that succeeds: CER/CEA and a DWR/DWA must complete; delay-bounded schedules (<= 2 quick / 4 thorough delays)",
          "termination causes: local close (DPR answered), local close with the peer dropping instead of answering, DPR from the peer, peer disconnect, peer reset, refused connection",
          "points in life: Open idle / with a parsed inbound request / with a queued outbound request / with a consumer blocked in get_message; client Wait-Conn-Ack and Wait-I-CEA; server Closed with an accepted connection",
          "schedules: delay-bounded exploration (deterministic round-robin over transport, receive worker, state machine, consumer, closer, peer; every step may be "
          "delayed by a solver-chosen boolean) with <= 4 (quick) / 7 (thorough) delays at synchronisation-operation granularity and <= 2 / 3 delays with a preemption "
          "point before every statement of the teardown and hand-over methods; two scenarios additionally preemption-bounded (<= 1 preemption) in the thorough tier"]
OUTSIDE = ["real threads and kernel sockets (thread termination = the coroutinised loop returns)", "SCTP", "election states", "restart is checked through Diameter.start()'s guard with stubbed "
           "association / state-machine constructors plus a second coroutinised association on the same object (real start() opens real sockets)",
           "local close requested before Open (see DESIGN.md)"]
ASSUMPTIONS = ["stand-in primitives and scheduler", "timeouts fire only at quiescence; SLEEP_TIMER pauses are preemption points", "refused connection = send() raising ECONNREFUSED then EPIPE (Linux)"]
