"""C09 - typed command classes build exactly the command they name.

Encoded (real code): every __init__ under bromelia/lib/*/messages.py (enumerated from the live modules each run),
DiameterMessage._load, set_flag_by_app_id, DiameterRequest/Answer.__init__, the AVP class constructors, and
DiameterMessage.load for the round trip.
Generator: inspect.signature gives declared argument order; mandatory/optionals give the AVP class per argument;
vf.avpgen produces an in-domain value per argument from a pool of symbolic leaves; presence of each optional
argument in the focus window is a symbolic boolean (all subsets in one path tree).
Oracle: vendored reference command table (ref/commands.json) + the reference encoder (one bytes equality).
"""
import importlib
import inspect
import json
import os
import pkgutil
from typing import List

from vf.driver import Q
from vf.h import REPLAY, P, reached, note, lib_errors, ref_avp, ref_msg
from vf import avpgen as G

import bromelia.lib as LIBPKG
from bromelia.base import DiameterAVP, DiameterMessage, DiameterRequest, DiameterAnswer

PROPERTY = "C09"
LEVEL = "model_checking"
LIB = lib_errors()
HERE = os.path.dirname(os.path.dirname(os.path.abspath(__file__)))

with open(os.path.join(HERE, "ref", "commands.json")) as _f:
    REF = {k: v for k, v in json.load(_f).items() if not k.startswith("_")}


with open(os.path.join(HERE, "ref", "command_args.json")) as _f:
    REFARGS = json.load(_f)     # class -> {argument: [AVP class name, "M"|"O"]}, frozen at design time and validated
                                # there against the naming convention argument_name -> ArgumentNameAVP


def _conv(name):
    return "".join(p.capitalize() for p in name.strip("_").split("_")) + "AVP"


def _ref_avp_class(key, arg, fallback):
    row = REFARGS.get(key, {}).get(arg)
    name = row[0] if row else _conv(arg)
    return getattr(G.bromelia.avps, name, fallback)


def command_classes():
    out = {}
    for m in pkgutil.iter_modules(LIBPKG.__path__):
        try:
            mod = importlib.import_module(f"bromelia.lib.{m.name}.messages")
        except BaseException:      # noqa
            continue
        for name, cls in vars(mod).items():
            if (inspect.isclass(cls) and issubclass(cls, (DiameterRequest, DiameterAnswer))
                    and cls not in (DiameterRequest, DiameterAnswer) and cls.__module__ == mod.__name__):
                out[f"{m.name}.{name}"] = cls
    return out


CLASSES = command_classes()


def _params(cls):
    return [p for p in inspect.signature(cls.__init__).parameters.values() if p.name not in ("self", "kwargs")]


def _table(cls, name):
    if name in cls.mandatory:
        return cls.mandatory[name]
    return cls.optionals.get(name)


def _passthrough(i, L):
    data = bytes([65 + (i % 20)]) * L
    return DiameterAVP(code=70000 + i, flags=0, data=data), ref_avp(70000 + i, 0, None, data)


def build_message(key, focus, use, lv, L, extras):
    """-> (instance or exception, expected list of reference AVP encodings, expected classes, app int|None)
    focus: names whose presence is decided by `use` (symbolic booleans, same order) and whose values come from lv;
    every other argument: mandatory-without-default gets a concrete value, everything else keeps its default."""
    cls = CLASSES[key]
    kwargs, plan = {}, []
    refapp = REF[key][1]
    dry = G.Leaves()                  # concrete values for arguments outside the focus window
    for i, p in enumerate(_params(cls)):
        acls = _table(cls, p.name)
        in_focus = p.name in focus
        pre_v = None
        if in_focus and acls is not None:
            # leaves are consumed in declaration order whether or not the argument ends up present,
            # so that every symbolic leaf keeps its planned range
            pre_v = G.value(acls, lv, L=L, max_depth=3)
        if in_focus:
            present = use[focus.index(p.name)]
        else:
            present = p.default is None and p.name in cls.mandatory      # must be given
            if p.default is not None and p.default is not inspect.Parameter.empty:
                present = "default"
        if present is False:
            if in_focus:
                kwargs[p.name] = None
            continue
        if present == "default":
            plan.append((p.name, acls, "default", p.default))
            continue
        if acls is None:
            obj, ref = _passthrough(i, L)
            kwargs[p.name] = obj
            plan.append((p.name, None, "obj", ref))
        else:
            v, rdata = pre_v if pre_v is not None else G.value(acls, dry, L=L, max_depth=3)
            if isinstance(refapp, str) and refapp == "arg:" + p.name:
                v, rdata = (16777236).to_bytes(4, "big"), (16777236).to_bytes(4, "big")
            elif p.name == "auth_application_id" and isinstance(refapp, int):
                # several classes copy this argument into the header: keep it at the command's own application
                v, rdata = refapp.to_bytes(4, "big"), refapp.to_bytes(4, "big")
            kwargs[p.name] = v
            plan.append((p.name, acls, "value", rdata))
    extra_refs = []
    for j in range(extras):
        obj, ref = _passthrough(900 + j, 1 + j)
        kwargs[f"zz_extra_{j}"] = obj
        extra_refs.append(ref)
    return cls, kwargs, plan, extra_refs


def typed(use: List[bool], ints: List[int], blob: bytes) -> bool:
    """
    pre: len(use) == len(P["focus"]) and len(blob) == P["nb"] and G.ints_ok(ints, P["ranges"])
    post: _
    """
    key = P["cls"]
    focus = P["focus"]
    lv = G.Leaves(ints, blob)
    cls, kwargs, plan, extra_refs = build_message(key, focus, use, lv, P["L"], P.get("extras", 0))
    missing = [n for n, u in zip(focus, use) if not u and n in cls.mandatory]
    try:
        msg = cls(**kwargs)
    except LIB as e:
        reached()
        # rejected with a library error: legitimate only if a mandatory argument was omitted
        return len(missing) > 0
    reached()
    if missing:
        return False
    code, refapp, is_req = REF[key]
    # expected AVP list: declared order filtered by presence, defaults materialised from the message itself for
    # arguments we did not pass (environment defaults such as platform.node()), extras last
    avps = msg.avps
    refs, k = [], 0
    ok = True
    for name, acls, kind, payload in plan:
        if k >= len(avps):
            return False
        a = avps[k]
        if kind == "obj":
            refs.append(payload)
        elif kind == "value":
            want = _ref_avp_class(key, name, acls)
            ok = ok and type(a) is want
            refs.append(G.ref_for(want, payload))
        else:                           # default value chosen by the class: AVP class must match, data taken as is
            if acls is None:
                continue
            want = _ref_avp_class(key, name, acls)
            ok = ok and type(a) is want
            refs.append(G.ref_for(want, a.data if a.data is not None else b""))
        k += 1
    refs += extra_refs
    ok = ok and len(avps) == len(refs)
    if isinstance(refapp, str):
        app = 16777236
    elif refapp is None:
        app = None
    else:
        app = refapp
    # P exactly when the Application-ID is non-zero; classes that leave it to the caller (ASA/RAA) are used for
    # session applications (non-zero), so P is expected there as well
    flags = (0x80 if is_req else 0) | (0x40 if app != 0 else 0)
    ok = ok and msg.header.get_command_code() == code and msg.header.is_request() == is_req and msg.header.get_flags() == flags
    sig = {p.name for p in _params(cls)}
    mand_codes = [c.code for n, c in cls.mandatory.items() if n in sig]      # mandatory == settable mandatory arguments
    got_codes = [a.code for a in avps]
    ok = ok and all(got_codes.count(c) == 1 for c in mand_codes)
    if app is None:
        # Application-ID is left for the caller to set (ASA/RAA): set it, then the encoding must be complete
        ok = ok and msg.header.application_id is None
        msg.header.application_id = 16777236
        app = 16777236
    else:
        ok = ok and msg.header.get_application_id() == app
    wire = msg.dump()
    exp = ref_msg(1, flags, code, app, msg.header.get_hop_by_hop(), msg.header.get_end_to_end(), refs)
    if REPLAY: note(cls=key, kwargs=sorted(kwargs), observed=wire.hex(), expected=exp.hex())
    ok = ok and wire == exp and msg.get_length() == len(exp) and len(exp) % 4 == 0
    if P.get("roundtrip"):
        back = DiameterMessage.load(wire)
        ok = ok and len(back) == 1 and back[0].dump() == wire
    return ok


def sweep():
    """native enumeration (not a solver query): for every class - request/answer pairing against the reference
    table, None for each mandatory argument without default is rejected with DiameterMessageError, and the
    all-defaults message round-trips through DiameterMessage.load."""
    bad = []
    for key, cls in CLASSES.items():
        if key not in REF:
            bad.append(f"{key}: not in reference table")
            continue
        for tbl, kind in ((cls.mandatory, "M"), (cls.optionals, "O")):
            for arg, acls in tbl.items():
                row = REFARGS.get(key, {}).get(arg)
                if row is None:
                    if _conv(arg) != acls.__name__ and hasattr(G.bromelia.avps, _conv(arg)):
                        bad.append(f"{key}: argument {arg} mapped to {acls.__name__}, naming convention says {_conv(arg)}")
                elif row[0] != acls.__name__ or row[1] != kind:
                    bad.append(f"{key}: argument {arg} is {kind}:{acls.__name__}, reference table says {row[1]}:{row[0]}")
        for arg in REFARGS.get(key, {}):
            if arg not in cls.mandatory and arg not in cls.optionals:
                bad.append(f"{key}: argument {arg} disappeared from the mandatory/optionals tables")
        base = {}
        dry = G.Leaves()
        for i, p in enumerate(_params(cls)):
            if p.default is None and p.name in cls.mandatory:
                v, _ = G.value(cls.mandatory[p.name], dry, L=3, max_depth=3)
                if isinstance(REF[key][1], str) and REF[key][1] == "arg:" + p.name:
                    v = (16777236).to_bytes(4, "big")
                base[p.name] = v
        try:
            m = cls(**base)
        except BaseException as e:      # noqa
            bad.append(f"{key}: valid arguments rejected: {type(e).__name__}: {e}")
            continue
        if m.header.application_id is None:
            m.header.application_id = 16777236
        try:
            back = DiameterMessage.load(m.dump())
            if len(back) != 1 or back[0].dump() != m.dump():
                bad.append(f"{key}: round trip differs")
        except BaseException as e:      # noqa
            bad.append(f"{key}: round trip raised {type(e).__name__}: {e}")
        for name in list(base):
            kw = dict(base)
            kw[name] = None
            try:
                cls(**kw)
                bad.append(f"{key}: {name}=None accepted")
            except LIB:
                pass
            except BaseException as e:  # noqa
                bad.append(f"{key}: {name}=None -> {type(e).__name__} (not a library error)")
        # request/answer pairing
        pair = key.replace("Request", "Answer") if key.endswith("Request") else key.replace("Answer", "Request")
        if pair in REF and (REF[pair][0] != REF[key][0]):
            bad.append(f"{key}: command code differs from {pair}")
    for key in REF:
        if key not in CLASSES:
            bad.append(f"{key}: reference row without class")
    if bad:
        return {"verdict": "cex", "detail": "; ".join(bad[:6]), "call": str(bad[:6]), "reproduced": True,
                "replay": {"verdict": "fails", "problems": bad}}
    return {"verdict": "proved", "obligation": f"{len(CLASSES)} classes: pairing, None-rejection, default round trip (enumeration)"}


def _windows(cls, size):
    names = [p.name for p in _params(cls) if _table(cls, p.name) is not None]
    other = [p.name for p in _params(cls) if _table(cls, p.name) is None]
    wins, cur, w = [], [], 0
    for n in names:
        cost = 2 if G.type_of(_table(cls, n)) == "Grouped" else 1
        if cur and w + cost > size:
            wins.append(cur)
            cur, w = [], 0
        cur.append(n)
        w += cost
    if cur:
        wins.append(cur)
    return wins, other


def _mk(key, focus, L, extras, roundtrip, t, tag):
    cls = CLASSES[key]
    lv = G.Leaves()
    build_message(key, focus, [True] * len(focus), lv, L, extras)
    prm = {"cls": key, "focus": focus, "L": L, "extras": extras, "roundtrip": roundtrip, "nb": lv.nb, "ranges": lv.ranges}
    return Q(f"typed/{key}/{tag}", "typed", prm, cto=t, pto=t,
             what=f"{key}: arguments {focus} present/absent by symbolic booleans, their leaf values symbolic "
                  f"({lv.ni} ints, {lv.nb} bytes), {extras} extra keyword AVPs, L={L}")


def argapp(n: int) -> bool:
    """
    pre: 0 <= n < 2**32
    post: _
    """
    # classes whose header Application-ID is an ARGUMENT (ASR, RAR): every 32-bit identifier, given as int or as 4 bytes
    # (grid): header Application-ID == n, R per the reference table, P exactly when n != 0, the AVP carries n
    key = P["cls"]
    code, refapp, is_req = REF[key]
    name = refapp.split(":", 1)[1]
    cls, kwargs, plan, _ = build_message(key, [], [], G.Leaves(), 2, 0)
    kwargs[name] = n if P["spelling"] == "int" else n.to_bytes(4, "big")
    try:
        m = cls(**kwargs)
    except LIB:
        reached()
        # the int 0 is indistinguishable from "argument not given" for these constructors and is rejected as a missing
        # mandatory argument (a library error, which the statement allows); nothing else may be rejected
        return P["spelling"] == "int" and n == 0
    reached()
    h = m.header
    if REPLAY: note(cls=key, n=n, spelling=P["spelling"], app=h.application_id.hex(), flags=h.flags.hex())
    carried = [a for a in m.avps if a.get_code() == 258]
    return (h.application_id == n.to_bytes(4, "big") and h.is_request() == is_req and h.is_proxiable() == (n != 0)
            and not h.is_error() and len(carried) == 1 and carried[0].data == n.to_bytes(4, "big")
            and int.from_bytes(h.command_code, "big") == code and m.get_length() == len(m.dump()))


def _limit_enums(cls, window):
    """quick tier: at most one Enumerated argument per window (each one multiplies the path count by its number of values)"""
    out, seen = [], False
    for name in window:
        acls = _table(cls, name)
        if acls is not None and G.type_of(acls) == "Enumerated":
            if seen:
                continue
            seen = True
        out.append(name)
    return out


def queries(tier, seed):
    t = 300 if tier == "quick" else 900          # (the widest windows need ~120 s on an idle machine: headroom for a loaded one)
    qs = [Q("native/sweep", "sweep", engine="py", cto=120, what="all classes: reference-table pairing, None rejection, round trip")]
    keys = sorted(CLASSES)
    for ki, key in enumerate(keys):
        if key not in REF:
            continue
        cls = CLASSES[key]
        wins, other = _windows(cls, 3 if tier == "quick" else 5)
        if tier == "quick":
            # one table window (rotating with the seed) + one pass-through window per class
            w = _limit_enums(cls, wins[(seed + ki) % len(wins)])
            qs.append(_mk(key, w, 1 + (ki % 4), 2 if ki % 2 == 0 else 0, ki % 5 == 0, t, "w" + str((seed + ki) % len(wins))))
            if other and (ki + seed) % 3 == 0:
                o = other[:3]
                qs.append(_mk(key, o, 2, 0, False, t, "pass0"))
        else:
            for wi, w in enumerate(wins):
                qs.append(_mk(key, w, 1 + ((ki + wi) % 4), 2 if wi == 0 else 0, wi == 0, t, f"w{wi}"))
            for oi in range(0, len(other), 4):
                qs.append(_mk(key, other[oi:oi + 4], 2, 0, False, t, f"pass{oi // 4}"))
    for key in sorted(k for k in keys if k in REF and isinstance(REF[k][1], str) and REF[k][1].startswith("arg:")):
        for spelling in ("int", "bytes"):
            qs.append(Q(f"argapp/{key}/{spelling}", "argapp", {"cls": key, "spelling": spelling}, cto=t, pto=t,
                        what=f"{key}: header Application-ID taken from an argument given as {spelling}: every 32-bit identifier"))
    return qs


BOUNDS = ["classes whose header Application-ID is an argument: every 32-bit identifier in both spellings", "all typed command classes found under bromelia.lib (50 on the pinned tree)", "per query a window of <= 4 (quick) / 5 arguments: "
          "all 2^k presence subsets x all leaf values of those arguments; other arguments concrete", "leaf data length L in 1..4 by class rotation; "
          "Grouped arguments from their mandatory table to depth 3", "quick: one table window (rotating with VERIF_SEED) + one pass-through window per class; "
          "thorough: every window"]
OUTSIDE = ["cross-window interactions of argument presence (argument handling in _load is per-argument)", "Application-ID of ASA/RAA "
           "(left for the caller to set; the check sets it before encoding)", "value domains as in C01"]
ASSUMPTIONS = ["reference command table ref/commands.json (transcribed from the RFC/TS documents)", "reference encoder; frozen AVP dictionary",
               "environment-derived defaults (platform.node() etc.) are taken from the built message, only their AVP class is checked"]
