"""C10 - the AVP dictionary is unambiguous and every class enforces its declared type.

(a) function-hood      E2: the registry rows are turned into a finite SMT instance; "two rows share (vendor, code) but
                       differ in definition" must be unsat for z3 and cvc5.
(b) dispatch           every class: load(dump(instance)) yields that class; classes defined *after* the first lookup
                       (known and new vendors) are dispatched too (native enumeration).
(c) type enforcement   E1: per declared type, a value of a symbolic kind (any int, bytes of every grid length with
                       symbolic content, short str, None, float, lists) either makes the constructor raise or yields a
                       well-formed instance (exact widths, enumeration membership, address family/width, mandatory
                       members, dump == reference encoding of the data).
(d) published identity every class against the frozen reference dictionary, docs/list-of-avps.md and
                       bromelia/definitions.py (table comparison; the solver adds nothing there).
"""
import re
from typing import List

from vf.driver import Q
from vf.h import REPLAY, P, reached, note, lib_errors, ref_avp
from vf import avpgen as G
from vf import ast2smt as A

from bromelia.base import DiameterAVP

PROPERTY = "C10"
LEVEL = "model_checking"
LIB = lib_errors()
WIDTH = {"Integer32": 4, "Unsigned32": 4, "Enumerated": 4, "Time": 4, "Unsigned64": 8}


def well_formed(cls, inst):
    """-> None or a reason"""
    t = G.type_of(cls)
    d = inst.data
    if not isinstance(d, (bytes, bytearray)):
        return f"data is {type(d).__name__}, not bytes"
    if t in WIDTH and len(d) != WIDTH[t]:
        return f"{t} data of {len(d)} bytes"
    if t == "Enumerated" and d not in cls.values:
        return "enumerator not in values"
    if t == "Address" and cls.__name__ != "FramedIpAddressAVP":
        if len(d) < 2:
            return "Address without a complete family field"
        fam = d[0] * 256 + d[1]
        if fam == 1 and len(d) != 6:
            return "IPv4 family with a non-4-byte address"
        if fam == 2 and len(d) != 18:
            return "IPv6 family with a non-16-byte address"
    code, vendor, flags, _ = G.expected(cls)
    hdr = 12 if vendor is not None else 8
    if inst.get_length() != hdr + len(d):
        return "AVP Length does not cover header + data"
    wire = inst.dump()
    if flags is not None and wire != ref_avp(code, flags, vendor, d):
        return "dump() is not the reference encoding of the data"
    if t == "Grouped":
        have = [m.code for m in inst.avps]
        for m in getattr(cls, "mandatory", {}).values():
            if m.code not in have:
                return "mandatory member missing"
    return None


def _try(cls, value):
    try:
        inst = cls(value)
    except LIB:
        return None
    except Exception:
        return None
    return inst


def enforce_bytes(b: bytes) -> bool:
    """
    pre: len(b) == P["L"]
    post: _
    """
    cls = G.by_name(P["cls"])
    inst = _try(cls, b)
    reached()
    if inst is None:
        return True
    why = well_formed(cls, inst)
    if REPLAY: note(cls=P["cls"], value=b.hex(), why=why)
    return why is None and inst.data == b


def enforce_int(n: int) -> bool:
    """
    pre: P["lo"] is None or P["lo"] <= n
    pre: P["hi"] is None or n <= P["hi"]
    post: _
    """
    cls = G.by_name(P["cls"])
    inst = _try(cls, n)
    reached()
    if inst is None:
        return True
    why = well_formed(cls, inst)
    t = G.type_of(cls)
    if REPLAY: note(cls=P["cls"], value=n, why=why)
    if why:
        return False
    if t == "Unsigned32":
        return 0 <= n < 2 ** 32 and inst.data == n.to_bytes(4, "big")
    if t == "Unsigned64":
        return -2 ** 63 <= n < 2 ** 63 and inst.data == (n % 2 ** 64).to_bytes(8, "big")
    return True


def enforce_str(s: str) -> bool:
    """
    pre: len(s) <= P["L"]
    pre: not P.get("ascii") or all(ord(c) < 128 for c in s)
    post: _
    """
    cls = G.by_name(P["cls"])
    inst = _try(cls, s)
    reached()
    if inst is None:
        return True
    why = well_formed(cls, inst)
    if REPLAY: note(cls=P["cls"], value=s, why=why)
    return why is None


def enforce_other() -> dict:
    """native enumeration over non-solver kinds (None, float, bool, list, dict, tuple, bytearray, wrong Grouped members,
    DiameterURI table): construct or raise, never a malformed instance."""
    import datetime
    bad = []
    uri_good = ["aaa://host.example.com", "aaas://host.example.com:6666;transport=tcp;protocol=diameter", "aaa://ab.cd;transport=sctp"]
    # only what the statement promises: the aaa / aaas scheme
    uri_bad = ["", "http://host.example.com", "aaa:/host.example.com", "aax://host.example.com", "host.example.com", "AAA://host.example.com",
               "aaas//host.example.com", "ftp://host.example.com", "aaass://host.example.com", "://host.example.com"]
    for cls in G.classes():
        t = G.type_of(cls)
        values = [None, 1.5, [], {}, (), bytearray(b"abcd"), [1, 2], ["x"], [None], datetime.date(2020, 1, 1), object()]
        if t == "Grouped":
            values += [[DiameterAVP(code=1, data=b"x")], [DiameterAVP(code=1, data=b"x"), "notanavp"]]
        for v in values:
            try:
                inst = cls(v)
            except BaseException:     # noqa
                continue
            why = well_formed(cls, inst)
            if why:
                bad.append(f"{cls.__name__}({v!r}): {why}")
        if t == "Time":
            # datetime values: "a well-formed encoding OF THAT VALUE" - the data must be the seconds since 1900-01-01 UTC of the
            # instant meant (naive = UTC by the library's convention), whatever the tzinfo; or the constructor raises
            tz = datetime.timezone
            td = datetime.timedelta
            base = datetime.datetime(2021, 3, 4, 12, 0, 0)
            cases = [base, datetime.datetime(1900, 1, 1), datetime.datetime(2036, 2, 7, 6, 28, 15), base.replace(microsecond=999999)]
            cases += [base.replace(tzinfo=tz.utc)] + [base.replace(tzinfo=tz(td(minutes=m))) for m in (120, -330, 345, 1, -1, 14 * 60, -12 * 60)]
            for v in cases:
                try:
                    inst = cls(v)
                except BaseException:     # noqa
                    continue
                instant = v if v.tzinfo is None else v.astimezone(tz.utc).replace(tzinfo=None)
                diff = instant - datetime.datetime(1900, 1, 1)
                want = (diff.days * 86400 + diff.seconds).to_bytes(4, "big")
                if inst.data != want:
                    bad.append(f"{cls.__name__}({v!r}): data {inst.data.hex()} is not the instant ({want.hex()})")
        if t == "DiameterURI":
            for u in uri_bad:
                for arg in (u, u.encode()):
                    try:
                        cls(arg)
                        bad.append(f"{cls.__name__}({arg!r}) accepted")
                    except BaseException:   # noqa
                        pass
            for u in uri_good:
                for arg in (u, u.encode()):
                    try:
                        inst = cls(arg)
                        if inst.data != u.encode() or well_formed(cls, inst):
                            bad.append(f"{cls.__name__}({arg!r}) malformed")
                    except BaseException as e:   # noqa
                        bad.append(f"{cls.__name__}({arg!r}) rejected: {type(e).__name__}")
    if bad:
        return {"verdict": "cex", "detail": "; ".join(bad[:6]), "call": str(bad[:6]), "reproduced": True,
                "replay": {"verdict": "fails", "problems": bad}}
    return {"verdict": "proved", "obligation": f"{len(G.classes())} classes x 11-13 non-solver value kinds + DiameterURI table (enumeration)"}


def grouped_members(use: List[bool], ints: List[int], blob: bytes) -> bool:
    """
    pre: len(use) == P["nm"] and len(blob) == P["nb"] and G.ints_ok(ints, P["ranges"])
    post: _
    """
    # Grouped classes: any subset of the mandatory members (symbolic booleans) with symbolic leaf values:
    # accepted iff every mandatory member is present
    cls = G.by_name(P["cls"])
    lv = G.Leaves(ints, blob)
    members = []
    table = list(cls.mandatory.values())
    for m, u in zip(table, use):
        inst, _ = G.build(m, lv, L=2, depth=1, max_depth=2)
        if u:
            members.append(inst)
    extra = DiameterAVP(code=99999, flags=0, data=b"zz")
    members.append(extra)
    inst = _try(cls, members)
    reached()
    complete = all(use)
    if inst is None:
        return not complete
    return complete and well_formed(cls, inst) is None


# ------------------------------------------------------------------ (a) function-hood as a finite SMT query
def function_hood():
    rows = []
    for c in G.classes():
        code = int.from_bytes(c.code, "big")
        vendor = int.from_bytes(c.vendor_id, "big") if c.vendor_id is not None else -1
        inst, _ = G.build(c, G.Leaves())
        rows.append((vendor, code, (c.__name__, c.__module__, G.type_of(c), inst.get_flags(),
                                    tuple(sorted(getattr(c, "mandatory", {}) or {})), tuple(getattr(c, "values", ()) or ()))))
    defs = {}
    for _, _, d in rows:
        defs.setdefault(d, len(defs))
    n = len(rows)

    def chain(vals):
        s = str(vals[-1]) if vals[-1] >= 0 else f"(- {-vals[-1]})"
        for k in range(n - 2, -1, -1):
            v = str(vals[k]) if vals[k] >= 0 else f"(- {-vals[k]})"
            s = f"(ite (= x {k}) {v} {s})"
        return s
    decls = [f"(define-fun vendor ((x Int)) Int {chain([r[0] for r in rows])})",
             f"(define-fun code ((x Int)) Int {chain([r[1] for r in rows])})",
             f"(define-fun defid ((x Int)) Int {chain([defs[r[2]] for r in rows])})",
             "(declare-const i Int)", "(declare-const j Int)"]
    q = [f"(and (<= 0 i) (< i {n}) (<= 0 j) (< j {n}))", "(= (vendor i) (vendor j))", "(= (code i) (code j))", "(not (= (defid i) (defid j)))"]
    verdicts, stats, raw = A.decide(decls, [q])
    res = {"obligation": f"no two of the {n} registry rows share (vendor, code) with different definitions ({len(defs)} distinct definitions)",
           "obligations": 1, "solver": stats}
    if verdicts[0] == "unsat":
        res.update(verdict="proved", discharged=1)
    elif verdicts[0] == "sat":
        m = A.model(decls, q, ["i", "j"]) or {}
        i, j = m.get("i"), m.get("j")
        clash = (rows[i][2][0], rows[j][2][0], rows[i][0], rows[i][1]) if i is not None and j is not None else None
        real = clash is not None and rows[i][:2] == rows[j][:2] and rows[i][2] != rows[j][2]
        res.update(verdict="cex", detail=f"ambiguous dictionary entry: {clash}", call=str(clash), reproduced=real,
                   replay={"verdict": "fails", "clash": clash})
    else:
        res.update(verdict="inconclusive", detail=str(raw)[:300])
    return res


# ------------------------------------------------------------------ (b) dispatch, (d) published identity
def dispatch_and_identity():
    from bromelia.definitions import diameter_avps
    bad = []
    ref = G.ref_dictionary()
    for c in G.classes():
        inst, rdata = G.build(c, G.Leaves())
        back = DiameterAVP.load(inst.dump())
        if len(back) != 1 or type(back[0]) is not G.by_name(c.__name__) and type(back[0]) is not c:
            bad.append(f"{c.__name__}: decode dispatches to {type(back[0]).__name__ if back else None}")
        code = int.from_bytes(c.code, "big")
        vendor = int.from_bytes(c.vendor_id, "big") if c.vendor_id is not None else None
        if inst.get_code() != code or inst.get_vendor_id() != vendor or inst.is_vendor_id() != (vendor is not None):
            bad.append(f"{c.__name__}: instance does not carry the class identity / V flag")
        row = ref.get(c.__name__)
        if row is not None:
            got = {"code": code, "vendor": vendor, "type": G.type_of(c), "flags": inst.get_flags()}
            for k, v in got.items():
                if row[k] != v:
                    bad.append(f"{c.__name__}: {k} is {v}, published dictionary says {row[k]}")
    for name in ref:
        if not any(c.__name__ == name for c in G.classes()):
            bad.append(f"{name}: published class disappeared")
    # docs table
    docs = {}
    import os
    path = os.path.join(os.environ.get("VF_REPO", "/repo"), "docs", "list-of-avps.md")
    for line in open(path):
        m = re.match(r"\|\d+\|`([^`]+)`\|(\d+)\|(\w+)\|.*\|(\w+)\s*$", line)
        if m:
            docs[m.group(4)] = (m.group(1), int(m.group(2)), m.group(3))
    alias = {"IPFilterRule": "OctetString"}
    for cname, (nm, code, ty) in docs.items():
        row = ref.get(cname)
        if row is None:
            bad.append(f"docs row {cname} has no published class")
        elif row["code"] != code or row["type"] != alias.get(ty, ty):
            bad.append(f"docs row {cname}: ({code}, {ty}) vs dictionary ({row['code']}, {row['type']})")
    defs = {d["id"]: d["name"] for d in diameter_avps}
    for cname, (nm, code, ty) in docs.items():
        row = ref.get(cname)
        if row and row["vendor"] is None and code in defs and defs[code].replace("-", "").lower() != nm.replace("-", "").lower():
            bad.append(f"definitions.py names code {code} {defs[code]!r}, docs say {nm!r}")
    # classes added after the first lookup: known vendor (None, 3GPP) and a new vendor
    from bromelia.types import OctetStringType

    def late(code, vendor):
        v = vendor.to_bytes(4, "big") if vendor is not None else None

        class LateAVP(DiameterAVP, OctetStringType):
            pass
        LateAVP.code = code.to_bytes(4, "big")
        LateAVP.vendor_id = v

        def __init__(self, data):
            DiameterAVP.__init__(self, LateAVP.code, LateAVP.vendor_id)
            if v is not None:
                DiameterAVP.set_vendor_id_bit(self, True)
            OctetStringType.__init__(self, data=data, vendor_id=v)
        LateAVP.__init__ = __init__
        return LateAVP
    DiameterAVP.load(G.build(G.by_name("OriginHostAVP"), G.Leaves())[0].dump())      # make sure a lookup happened first
    for code, vendor in ((777001, None), (777002, 10415), (777003, 424242)):
        L = late(code, vendor)
        got = DiameterAVP.load(ref_avp(code, 0x80 if vendor is not None else 0, vendor, b"abc"))
        if type(got[0]) is not L:
            bad.append(f"class defined after the first lookup (vendor {vendor}) decodes as {type(got[0]).__name__}")
    if bad:
        return {"verdict": "cex", "detail": "; ".join(bad[:6]), "call": str(bad[:6]), "reproduced": True,
                "replay": {"verdict": "fails", "problems": bad}}
    return {"verdict": "proved", "obligation": f"{len(G.classes())} classes: dispatch, instance identity, frozen dictionary, docs ({len(docs)} rows), definitions.py"}


def _reps(tier):
    allc = G.classes()
    if tier != "quick":
        return allc
    keep, seen = [], set()
    for c in allc:
        fam = (G.type_of(c), c.vendor_id is not None)
        if fam not in seen or c.__name__ in ("FramedIpAddressAVP", "MsisdnAVP", "EapPayloadAVP", "SessionIdAVP"):
            keep.append(c)
            seen.add(fam)
    return keep


def queries(tier, seed):
    t = 90 if tier == "quick" else 600
    qs = [Q("smt/function_hood", "function_hood", engine="py", cto=60, what="finite SMT instance over the registry rows (z3 + cvc5)"),
          Q("native/dispatch_identity", "dispatch_and_identity", engine="py", cto=120, what="dispatch, identity, frozen dictionary, docs, definitions, late classes"),
          Q("native/enforce_other", "enforce_other", engine="py", cto=120, what="non-solver value kinds + DiameterURI table")]
    for c in _reps(tier):
        ty = G.type_of(c)
        name = c.__name__
        if ty == "Grouped":
            continue
        if ty == "Address":
            Ls = [0, 1, 2, 3, 6, 7, 18, 19] if tier == "quick" else list(range(0, 20))
        elif ty in G.OCTET_LIKE or ty == "DiameterURI":
            Ls = [0, 3] if tier == "quick" else [0, 1, 2, 3, 4, 5]
        else:
            Ls = [0, 3, 4, 5, 8, 9] if tier == "quick" else list(range(0, 10))
        for L in Ls:
            qs.append(Q(f"bytes/{name}/L{L}", "enforce_bytes", {"cls": name, "L": L}, cto=t, pto=t, what=f"{name} ({ty}) from every {L}-byte value"))
        if ty == "Unsigned64":
            ranges = [(-2 ** 63, 2 ** 63 - 1, "in the struct range"), (2 ** 63, None, ">= 2^63"), (None, -2 ** 63 - 1, "< -2^63")]
        elif name in ("MsisdnAVP", "StnSrAVP"):
            ranges = [(0, 10 ** 6, "0..10^6 (longer numbers: C18)"), (-10 ** 6, -1, "negative down to -10^6")]
        else:
            ranges = [(None, None, "every Python int")]
        for ri_, (lo, hi, label) in enumerate(ranges):
            tag = "" if lo is None and hi is None else f"/r{ri_}{'lo' if lo is not None else ''}{'hi' if hi is not None else ''}"
            qs.append(Q(f"int/{name}{tag}", "enforce_int", {"cls": name, "lo": lo, "hi": hi}, cto=t, pto=t, what=f"{name} ({ty}) from ints {label}"))
        sl = 4 if ty in ("Integer32", "Enumerated", "Time", "Unsigned32") else ((1 if tier == "quick" else 2) if name in ("MsisdnAVP", "StnSrAVP") else 2 if ty == "Address" else 3)
        # int(str) accepts every Unicode decimal digit (~650 code points, one path each): the TBCD classes get ASCII strings
        asc = name in ("MsisdnAVP", "StnSrAVP")
        qs.append(Q(f"str/{name}", "enforce_str", {"cls": name, "L": sl, "ascii": asc}, cto=t, pto=t,
                    what=f"{name} ({ty}) from every {'ASCII ' if asc else ''}str of <= {sl} chars"))
    groups = [c for c in G.classes() if G.type_of(c) == "Grouped" and getattr(c, "mandatory", None)]
    if tier == "quick":
        groups = [c for c in groups if len(c.mandatory) <= 3][:8]
    for c in groups:
        if len(c.mandatory) > 5:
            continue
        lv = G.Leaves()
        for m in c.mandatory.values():
            G.build(m, lv, L=2, depth=1, max_depth=2)
        qs.append(Q(f"grouped/{c.__name__}", "grouped_members", {"cls": c.__name__, "nm": len(c.mandatory), "nb": lv.nb, "ranges": lv.ranges}, cto=t, pto=t,
                    what=f"{c.__name__}: every subset of its {len(c.mandatory)} mandatory members, symbolic leaves"))
    return qs


ENGINE = "CrossHair + z3 on the real constructors; finite SMT instance (z3 + cvc5) for function-hood; native table comparisons for (b)/(d)"
BOUNDS = ["value kinds: every int; bytes of length 0..9 (Address: 0..19) with symbolic content; str of <= 3/4 chars; non-solver kinds by table",
          "quick: one class per (type, vendor-ness) + custom-logic classes; thorough: all classes", "Grouped: every subset of <= 5 mandatory members"]
OUTSIDE = ["non-ASCII str values for the TBCD classes (int(str) accepts ~650 Unicode digits, one path each)", "float/regex domains (DiameterURI grammar by concrete table)", "Address families other than IPv4/IPv6 (accepted as opaque data)",
           "negative ints for Unsigned64 (the struct format is signed; two's complement accepted)"]
ASSUMPTIONS = ["well-formedness predicate well_formed() transcribes the statement", "frozen reference dictionary ref/avp_dictionary.json"]
