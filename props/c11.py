"""C11 - a message's named AVP view, AVP list and length stay coherent under mutation.

Encoded (real code): DiameterMessage.append/extend/pop/cleanup/avps.setter/__setitem__/update_key/update_avps/
update_avp/refresh/has_avp, get_avp_name_formatted, DiameterAvpLoader name lookups.
Symbolic: the operation sequence - ops: List[int], each element selects (operation, operand) from the alphabet; the
start state is a grid parameter (states that need 3-5 steps to reach: three same-name AVPs, a gap in the index
suffixes, equal-valued AVPs, unknown AVPs sharing a name, a typed message).  The choice variables are solver
integers explored exhaustively by CrossHair (the solver prunes nothing in this dimension - stated in DESIGN 2.4).
Oracle: list-based reference container + coherence predicate evaluated after every operation.
"""
from typing import List

from vf.driver import Q
from vf.h import REPLAY, P, reached, note, lib_errors, ref_pad, untraced

from bromelia.base import DiameterAVP, DiameterHeader, DiameterMessage
from bromelia.avps import (OriginHostAVP, RouteRecordAVP, SessionIdAVP, VendorSpecificApplicationIdAVP, VendorIdAVP,
                           AuthApplicationIdAVP, OriginRealmAVP)

PROPERTY = "C11"
LEVEL = "model_checking"
LIB = lib_errors()


def _alphabet():
    """fresh objects per path; different length residues, equal values, unknown codes sharing a name, a Grouped"""
    return [OriginHostAVP(b"h1"),                                   # 0  residue 2
            RouteRecordAVP(b"r1x"),                                 # 1  residue 3
            RouteRecordAVP(b"r1x"),                                 # 2  equal value, distinct object
            RouteRecordAVP(b"r2xyz"),                               # 3  residue 1
            DiameterAVP(code=99999, flags=0, data=b"abcd"),         # 4  unknown, residue 0
            DiameterAVP(code=99998, vendor_id=7, flags=0x80, data=b"q"),     # 5  unknown vendor AVP (same name as 4)
            VendorSpecificApplicationIdAVP([VendorIdAVP(10415), AuthApplicationIdAVP(16777251)]),   # 6 Grouped
            SessionIdAVP(b"a;1;2"),                                 # 7
            RouteRecordAVP(b"r3"),                                  # 8  spare objects for setitem/extend/list replacement
            OriginRealmAVP(b"realm.example"),                       # 9
            DiameterAVP(code=99997, flags=0x40, data=b"zz"),        # 10
            RouteRecordAVP(b"r1x")]                                 # 11


def _names(msg):
    return {k: v for k, v in vars(msg).items() if isinstance(v, DiameterAVP)}


def coherent(msg, ref):
    listed = msg.avps
    if len(listed) != len(ref):
        return "list length"
    for a, b in zip(listed, ref):
        if a is not b:
            return "list order/identity"
    names = _names(msg)
    if len(names) != len(ref):
        return f"{len(names)} names for {len(ref)} listed AVPs"
    for k, v in names.items():
        if not any(v is r for r in ref):
            return f"name {k} bound to an unlisted AVP"
        if not msg.has_avp(k):
            return f"has_avp({k}) is False"
    for r in ref:
        if sum(1 for v in names.values() if v is r) != 1:
            return "listed AVP without exactly one name"
    for probe in ("nonexistent_avp", "route_record_avp__9", "zz_avp"):
        if probe not in names and msg.has_avp(probe):
            return f"has_avp({probe}) is True"
    size = 20
    for r in ref:
        n = r.get_length()
        size += n + ref_pad(n)
    wire = msg.dump()
    if len(wire) != size:
        return "dump size"
    if msg.header.get_length() != size:
        return f"Message Length {msg.header.get_length()} != {size}"
    return None


def _key_of(msg, obj):
    keys = [k for k, v in _names(msg).items() if v is obj]
    return keys[0] if len(keys) == 1 else None


# operation table: (name, operand)
OPS = ([("append", k) for k in range(8)] + [("pop", j) for j in range(4)] + [("cleanup", 0), ("refresh", 0)] +
       [("setlist", 0), ("setlist", 1), ("extend", 0)] + [("setitem", (j, k)) for j in (0, 1) for k in (8, 9, 10)] +
       [("rename", 0), ("rename", 1)] + [("update", 0), ("update", 1), ("update", 2)] + [("rename", 2), ("append", 11)])
SMALL = [0, 1, 2, 3, 8, 9, 10, 14, 17, 20, 27, 28, 29]        # reduced alphabet for longer sequences (indices into OPS)


def apply(msg, ref, A, used, op):
    """apply one operation to the real message and to the reference list; -> error string or None"""
    name, arg = op
    if name == "append":
        o = A[arg]
        if used[arg]:
            return None                       # appending the same object twice is outside the contract
        used[arg] = True
        msg.append(o)
        ref.append(o)
    elif name == "pop":
        if arg >= len(ref):
            return None
        key = _key_of(msg, ref[arg])
        if key is None:
            return "no unique name for a listed AVP"
        msg.pop(key)
        ref.pop(arg)
    elif name == "cleanup":
        msg.cleanup()
        del ref[:]
    elif name == "refresh":
        msg.refresh()
    elif name == "setlist":
        new = [A[8], A[9]] if arg == 0 else [A[11]]
        if any(used[i] for i in ((8, 9) if arg == 0 else (11,))):
            return None
        for i in ((8, 9) if arg == 0 else (11,)):
            used[i] = True
        msg.avps = list(new)
        ref[:] = new
    elif name == "extend":
        if used[10] or used[11]:
            return None
        used[10] = used[11] = True
        msg.extend([A[10], A[11]])
        ref.extend([A[10], A[11]])
    elif name == "setitem":
        j, k = arg
        if j >= len(ref) or used[k]:
            return None
        used[k] = True
        msg[j] = A[k]
        ref[j] = A[k]
    elif name == "rename":
        if arg >= len(ref) and arg != 2:
            return None
        key = _key_of(msg, ref[arg]) if arg != 2 else "-"
        if key is None:
            return "no unique name for a listed AVP"
        new_key = "custom_name_avp" if arg == 0 else "other_custom_avp__3"
        if arg == 2:
            # the LAST listed AVP that carries an index-suffixed name moves onto the lowest free sibling name of its family
            # (fills the hole a pop left in the middle): legal, keeps the list, but re-orders the names inside the object
            import re
            new_key = None
            for r in reversed(ref):
                k = _key_of(msg, r)
                mt = re.fullmatch(r"(.+_avp)__(\d+)", k or "")
                if mt:
                    names = _names(msg)
                    free = [i for i in range(1, int(mt.group(2))) if f"{mt.group(1)}__{i}" not in names]
                    if free:
                        key, new_key = k, f"{mt.group(1)}__{free[0]}"
                    break
            if new_key is None:
                return None
        try:
            msg.update_key(key, new_key)
        except LIB:
            pass                              # e.g. target name taken: must leave the state as it was
    elif name == "update":
        # bulk data update through the public API; the updated AVP is replaced by a new object of the same class
        if arg == 0:
            upd, cls, data = {"origin_host": b"newhost.example"}, OriginHostAVP, b"newhost.example"
            key = "origin_host_avp"
        elif arg == 1:
            upd, cls, data = {"route_record": b"rr-new"}, RouteRecordAVP, b"rr-new"
            key = "route_record_avp"
        else:
            upd, cls, data = {"route_record__1": b"x"}, RouteRecordAVP, b"x"
            key = "route_record_avp__1"
        target = vars(msg).get(key)
        pos = None
        if isinstance(target, DiameterAVP):
            for i, r in enumerate(ref):
                if r is target:
                    pos = i
        has_sid = isinstance(vars(msg).get("session_id_avp"), DiameterAVP)
        msg.update_avps(upd)
        if pos is not None:
            new = msg.avps[pos] if pos < len(msg.avps) else None
            if new is None or type(new) is not type(target) or new.data != data:
                return "update_avps did not install the new value at the same position"
            ref[pos] = new
        if has_sid and arg == 0 and pos is not None:
            # origin re-assignment regenerates the Session-Id in place (C16): same object, new data
            pass
    else:
        raise KeyError(name)
    return None


def _start(kind, A, used):
    if kind == "typed":
        from bromelia.messages import CER
        msg = CER(origin_host="h", origin_realm="r", host_ip_address="10.0.0.1")
        ref = list(msg.avps)
        return msg, ref
    msg = DiameterMessage(DiameterHeader(command_code=272, application_id=4))
    ref = []
    seqs = {"empty": [], "three_rr": [0, 1, 2, 3], "gap": [0, 1, 2, 3, ("pop", 2)], "equal_popped": [1, 2, ("pop", 1)],
            "unknowns": [4, 5], "mixed": [7, 0, 6, 4], "renamed": [0, 1, ("rename", 1)],
            "four_rr_gap": [0, 1, 2, 3, 8, ("pop", 2)]}
    for step in seqs[kind]:
        op = ("append", step) if isinstance(step, int) else step
        err = apply(msg, ref, A, used, op)
        if err:
            raise AssertionError("start state: " + err)
    return msg, ref


def sequence(ops: List[int]) -> bool:
    """
    pre: len(ops) == P["n"] and all(0 <= o < P["nops"] for o in ops)
    post: _
    """
    table = OPS if P["alphabet"] == "full" else [OPS[i] for i in SMALL]
    chosen = [table[o] for o in ops]          # realises the choice variables: from here on everything is concrete
    with untraced():
        return _run(chosen)


def _run(chosen):
    A = _alphabet()
    used = [False] * len(A)
    msg, ref = _start(P["start"], A, used)
    err = coherent(msg, ref)
    if err:
        reached()
        if REPLAY: note(step="start", error=err)
        return False
    trace = []
    for op in chosen:
        trace.append(op)
        snapshot = list(ref)
        try:
            err = apply(msg, ref, A, used, op)
        except LIB + (Exception,):
            # the API rejected the operation (library error, or e.g. KeyError when a name was re-bound by item
            # assignment to an AVP of an unknown code): the statement then requires the state to be coherent
            # with the operation not having happened
            ref[:] = snapshot
            err = None
        err = err or coherent(msg, ref)
        if err:
            reached()
            if REPLAY: note(start=P["start"], operations=[list(map(str, t)) for t in trace], error=err,
                            names=sorted(_names(msg)), length_field=msg.header.get_length(), real=len(msg.dump()))
            return False
    reached()
    return True


def queries(tier, seed):
    t = 300 if tier == "quick" else 1800
    qs = []
    starts = ["empty", "three_rr", "gap", "equal_popped", "unknowns", "mixed", "renamed", "typed", "four_rr_gap"]

    def q(st, alpha, n):
        nops = len(OPS) if alpha == "full" else len(SMALL)
        return Q(f"seq/{st}/{alpha}/n{n}", "sequence", {"start": st, "alphabet": alpha, "n": n, "nops": nops}, cto=t, pto=t,
                 what=f"start state {st}: every sequence of {n} operations over the {alpha} alphabet ({nops} ops, {nops ** n} sequences)")
    for st in starts:
        qs.append(q(st, "full", 1))
        qs.append(q(st, "full", 2))
        qs.append(q(st, "small", 3))
    if tier != "quick":
        for st in starts:
            qs.append(q(st, "full", 3))
            qs.append(q(st, "small", 4))
        qs.append(q("empty", "small", 5))
    return qs


BOUNDS = [f"operation alphabet of {len(OPS)} (operation, operand) pairs over a 12-object AVP alphabet (equal-valued, same-name, unknown, Grouped, every length residue)",
          "start states reachable in 0-5 steps (grid); then every operation sequence (quick: n<=2 full alphabet, n=3 reduced alphabet; thorough: n=3 full, n=4-5 reduced)"]
OUTSIDE = ["appending the same object twice (outside the contract)", "sequences longer than the bound from states not in the start grid (the property text's ~12 is beyond the path budget)",
           "GroupedType's own container (the statement is about messages)", "update_key to a name that does not contain '_avp' (cleanup's naming convention)"]
ASSUMPTIONS = ["named view == attributes of the message whose value is a DiameterAVP", "reference container: a plain list of the same objects"]
