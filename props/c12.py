"""C12 - answers leaving a route carry the request's identity and a correct error flag.

Encoded (real code): bromelia.bromelia.decorate_answer, utils.is_3xxx/4xxx/5xxx_failure, DiameterMessage.pop/
refresh/has_avp, DiameterHeader.set_error_bit, typed request/answer constructors.
Symbolic: request Application-ID / Hop-by-Hop / End-to-End (32 bits each), Session-Id content (length is a grid
parameter: every residue), Result-Code (all 2^32, not a multiple of 1000), the answer's own identifiers and its
incoming E bit.  Grid: request/answer class pair, presence of Session-Id / Experimental-Result.
Oracle: copy rule + rc // 1000 + independent re-decode of the dumped answer.
"""
from typing import List

from vf.driver import Q
from vf.h import REPLAY, P, reached, note, lib_errors, ref_avp, ref_msg

from bromelia.bromelia import decorate_answer
from bromelia.avps import (SessionIdAVP, ResultCodeAVP, ExperimentalResultAVP, ExperimentalResultCodeAVP, VendorIdAVP,
                           OriginHostAVP, OriginRealmAVP, UserNameAVP)
from bromelia.base import DiameterRequest, DiameterAnswer, DiameterMessage, DiameterHeader

PROPERTY = "C12"
LEVEL = "model_checking"
LIB = lib_errors()


def _pair(kind, sid, rc, with_exp, req_sid):
    """-> (request, answer) built through the public constructors"""
    if kind == "generic":
        req = DiameterRequest(command_code=8388620, application_id=16777216)
        if req_sid:
            req.append(SessionIdAVP(sid))
        req.append(OriginHostAVP("cli.example"))
        ans = DiameterAnswer(command_code=8388620, application_id=7)
        if req_sid or P.get("ans_sid"):
            ans.append(SessionIdAVP(b"placeholder"))
        ans.append(ResultCodeAVP(rc))
        ans.append(OriginHostAVP("srv.example"))
    elif kind == "message":
        # plain DiameterMessage objects with explicit headers are legal requests/answers too
        req = DiameterMessage(DiameterHeader(flags=0xc0, command_code=272, application_id=4))
        if req_sid:
            req.append(SessionIdAVP(sid))
        ans = DiameterAnswer(command_code=272, application_id=4)
        if req_sid:
            ans.append(SessionIdAVP(b"x"))
        ans.append(ResultCodeAVP(rc))
    elif kind == "cex":
        from bromelia.messages import CER, CEA
        req = CER(origin_host="cli", origin_realm="r", host_ip_address="10.0.0.1")
        ans = CEA(origin_host="srv", origin_realm="r", host_ip_address="10.0.0.2", result_code=rc.to_bytes(4, "big"))
    elif kind == "ulx":
        from bromelia.lib.etsi_3gpp_s6a import ULR, ULA
        # typed constructors are slow under tracing: build with a concrete Session-Id, then install the
        # (symbolic) one through the public data setter - decorate_answer only reads request.session_id_avp.data
        req = ULR(session_id=b"c", origin_host="cli", origin_realm="r", destination_realm="d", user_name="1",
                  visited_plmn_id=b"\x00\x01\x02")
        req.session_id_avp.data = sid
        req.refresh()
        ans = ULA(session_id=b"placeholder", origin_host="srv", origin_realm="r", result_code=rc.to_bytes(4, "big"))
    elif kind == "stx":
        from bromelia.messages import STR, STA
        req = STR(session_id=b"c", origin_host="cli", origin_realm="r", destination_realm="d",
                  auth_application_id=bytes.fromhex("01000023"), termination_cause=bytes.fromhex("00000001"))
        req.session_id_avp.data = sid
        req.refresh()
        ans = STA(session_id=b"placeholder", origin_host="srv", origin_realm="r", result_code=rc.to_bytes(4, "big"))
    else:
        raise KeyError(kind)
    if with_exp:
        ans.append(ExperimentalResultAVP([VendorIdAVP(10415), ExperimentalResultCodeAVP(5001)]))
    return req, ans


def decorate_ids(app: int, hbh: int, e2e: int, rc: int, a_hbh: int, a_e2e: int, e_in: bool) -> bool:
    """
    pre: 0 <= app < 2**32 and 0 <= hbh < 2**32 and 0 <= e2e < 2**32 and 0 <= a_hbh < 2**32 and 0 <= a_e2e < 2**32
    pre: 0 <= rc < 2**32 and rc % 1000 != 0
    post: _
    """
    # identifiers / Result-Code / incoming E bit symbolic, Session-Id content concrete
    return _decorate(app, hbh, e2e, bytes(range(65, 65 + P["L"])), rc, a_hbh, a_e2e, e_in)


def decorate_sid(sid: bytes, rc: int, e_in: bool) -> bool:
    """
    pre: len(sid) == P["L"]
    pre: 0 <= rc < 2**32 and rc % 1000 != 0
    post: _
    """
    # Session-Id content / Result-Code / incoming E bit symbolic, identifiers concrete
    return _decorate(16777251, 0x01020304, 0xfffefdfc, sid, rc, 7, 9, e_in)


def _decorate(app, hbh, e2e, sid, rc, a_hbh, a_e2e, e_in):
    req_sid = P["req_sid"]
    with_exp = P["exp"]
    req, ans = _pair(P["kind"], sid, rc, with_exp, req_sid)
    req.header.application_id = app
    req.header.hop_by_hop = hbh
    req.header.end_to_end = e2e
    ans.header.hop_by_hop = a_hbh
    ans.header.end_to_end = a_e2e
    if e_in:
        ans.header.set_error_bit(True)
    has_sid = req.has_avp("session_id_avp")
    try:
        out = decorate_answer(ans, req)
    except LIB as e:
        reached()
        if REPLAY: note(raised=repr(e), rc=rc, e_in=e_in)
        return False
    reached()
    fam = rc // 1000
    want_err = fam in (3, 4, 5)
    if REPLAY: note(rc=rc, e_in=e_in, is_error=out.header.is_error(), want_error=want_err, length_field=out.get_length(),
         real_length=len(out.dump()))
    ok = (out.header.application_id == app.to_bytes(4, "big") and out.header.hop_by_hop == hbh.to_bytes(4, "big")
          and out.header.end_to_end == e2e.to_bytes(4, "big"))
    ok = ok and out.header.is_error() == want_err and not out.header.is_request()
    wire = out.dump()
    ok = ok and out.get_length() == len(wire) and len(wire) % 4 == 0
    # independent re-encoding of the answer's content with the reference encoder (one bytes equality; decoding a
    # symbolic buffer in a loop made every comparison a solver query)
    content = []
    for a in out.avps:
        data = a.data
        if a.get_code() == 263 and has_sid:
            ok = ok and a is out.session_id_avp
            data = sid                      # what the statement requires, not what the object holds
        content.append(ref_avp(a.get_code(), a.get_flags(), a.get_vendor_id(), data))
    codes = [a.get_code() for a in out.avps]
    expected = ref_msg(1, out.header.get_flags(), out.header.get_command_code(), app, hbh, e2e, content)
    ok = ok and wire == expected
    if has_sid:
        ok = ok and codes.count(263) == 1
    ok = ok and not (268 in codes and 297 in codes) and not (out.has_avp("result_code_avp") and out.has_avp("experimental_result_avp"))
    ok = ok and (268 in codes) == (not with_exp) and (297 in codes) == with_exp
    return ok


def queries(tier, seed):
    t = 90 if tier == "quick" else 600
    qs = []
    kinds = ["generic", "cex", "ulx"] if tier == "quick" else ["generic", "message", "cex", "ulx", "stx"]
    Ls = [1, 2, 3, 4] if tier == "quick" else [0, 1, 2, 3, 4, 5, 6, 7, 8, 13]
    for kind in kinds:
        has_sid_opts = [False] if kind == "cex" else ([True, False] if kind in ("generic", "message") else [True])
        for req_sid in has_sid_opts:
            for exp in (False, True):
                prm = {"kind": kind, "req_sid": req_sid, "exp": exp, "L": 3}
                qs.append(Q(f"ids/{kind}/sid{int(req_sid)}/exp{int(exp)}", "decorate_ids", prm, cto=t, pto=t,
                            what=f"{kind} pair, Session-Id {'present' if req_sid else 'absent'}, Experimental-Result "
                                 f"{'present' if exp else 'absent'}: all ids, all Result-Codes, incoming E bit symbolic"))
                if not req_sid:
                    continue
                for L in (Ls if (kind == "generic" or tier != "quick") else [2]):
                    prm = {"kind": kind, "req_sid": True, "exp": exp, "L": L}
                    qs.append(Q(f"sid/{kind}/exp{int(exp)}/L{L}", "decorate_sid", prm, cto=t, pto=t,
                                what=f"{kind} pair, Session-Id of {L} symbolic bytes, all Result-Codes, incoming E bit symbolic"))
    return qs


BOUNDS = ["Application-ID, Hop-by-Hop, End-to-End of request and answer: all 32-bit values; Result-Code: all 32-bit values not multiple of 1000",
          "Session-Id: every byte string of the grid length (quick 1..4 = every residue; thorough 0..8, 13)",
          "pairs: generic, CER/CEA, ULR/ULA (quick) + plain DiameterMessage, STR/STA (thorough)"]
OUTSIDE = ["multiples of 1000 as Result-Code (no family in C17's wording)", "an answer without a Session-Id AVP for a request that has one "
           "(decorate_answer overwrites, it does not insert)", "answers carrying the R bit"]
ASSUMPTIONS = ["reference decoder (vf.h.ref_decode_msgs) used to re-read the dumped answer", "typed constructors' environment defaults "
               "(platform.node etc.) are pinned by passing explicit values"]
