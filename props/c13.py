"""C13 - each request reaches its registered handler and always gets exactly one answer.

Encoded (real code): Bromelia.route (registration through the real decorator), get_request_callback,
get_worker_by_message, callback_route, create_error_answer, Bromelia.send_message (answer path), decorate_answer,
Worker.set_outgoing_message (borrowed onto an in-process worker whose queue/lock/event are stand-ins).
Symbolic: which registered (application, command) pair the request targets, the handler outcome
{answer, None, str, the request itself, raises ValueError, answer with E bit preset}, the request's
Hop-by-Hop / End-to-End (32 bits each) and Session-Id bytes.  Grid: route-table shape (incl. a command code shared
across applications), handlers sharing one __name__ (closures) or not.
"""
import threading
from typing import List

from vf.driver import Q
from vf.h import REPLAY, P, reached, note, lib_errors

from bromelia import bromelia as BM
from bromelia.base import DiameterRequest, DiameterAnswer, DiameterMessage
from bromelia.avps import (SessionIdAVP, OriginHostAVP, OriginRealmAVP, ResultCodeAVP, DestinationRealmAVP, UserNameAVP)
from bromelia.constants import DIAMETER_UNABLE_TO_COMPLY

PROPERTY = "C13"
LEVEL = "model_checking"
LIB = lib_errors()

APPS = [(16777251).to_bytes(4, "big"), (16777236).to_bytes(4, "big")]
CMDS = [(316).to_bytes(3, "big"), (265).to_bytes(3, "big")]
PAIRS = [(a, c) for a in range(2) for c in range(2)]


class _Barrier:
    def wait(self, timeout=None):
        raise threading.BrokenBarrierError()

    def reset(self):
        pass


class _Lock:
    def __init__(self):
        self.held = 0

    def acquire(self):
        self.held += 1

    def release(self):
        self.held -= 1


class _Queue:
    def __init__(self):
        self.items = []

    def put(self, x):
        self.items.append(x)


class _Event:
    def __init__(self):
        self.flag = False

    def set(self):
        self.flag = True


class _App:
    def __init__(self, idx):
        self.config = {"LOCAL_NODE_HOSTNAME": f"local{idx}.example", "LOCAL_NODE_REALM": f"realm{idx}.example",
                       "APPLICATIONS": [{"app_id": APPS[idx]}]}


class InProcWorker:
    """the real Worker is a multiprocessing.Process; this one keeps the real hand-over method on in-process stand-ins"""

    def __init__(self, idx):
        self.name = f"w{idx}"
        self.app = _App(idx)
        self.send_lock, self.send_queue, self.send_event = _Lock(), _Queue(), _Event()
        self.pending_answers = {}

    def is_running(self):
        return True

    set_outgoing_message = BM.Worker.set_outgoing_message


def _mk_app():
    # the REAL constructor builds the object (whatever attributes the current tree keeps on it); only its file I/O is stubbed
    # and every threading.Barrier it created is replaced by the stand-in, under whatever attribute name
    import threading
    keep = (BM._convert_file_to_config, BM.get_app_name)
    BM._convert_file_to_config, BM.get_app_name = (lambda f, g: []), (lambda f: "app")
    try:
        app = BM.Bromelia()
    finally:
        BM._convert_file_to_config, BM.get_app_name = keep
    for k, v in list(vars(app).items()):
        if isinstance(v, threading.Barrier):
            setattr(app, k, _Barrier())
    workers = [InProcWorker(0), InProcWorker(1)]
    app.associations = {APPS[0]: workers[0], APPS[1]: workers[1]}
    app.recv_queues = []
    return app, workers


def _answer_for(req, kind):
    ans = DiameterAnswer(command_code=req.header.command_code, application_id=b"\x00\x00\x00\x07")
    ans.append(SessionIdAVP(b"handler-made"))
    ans.append(ResultCodeAVP(2001 if kind != "err_preset" else 5004))
    ans.append(OriginHostAVP("srv"))
    if kind == "err_preset":
        ans.header.set_error_bit(True)
    return ans


OUTCOMES = ["answer", "none", "str", "request", "raises", "err_preset", "raises_noargs", "raises_assert", "raises_nested", "fresh_request", "int"]


def dispatch(target: int, outcome: int, hbh: int, e2e: int, sid: bytes) -> bool:
    """
    pre: 0 <= target < len(P["table"]) and 0 <= outcome < len(OUTCOMES)
    pre: 0 <= hbh < 2**32 and 0 <= e2e < 2**32 and len(sid) == P["L"]
    post: _
    """
    app, workers = _mk_app()
    calls = []
    produced = {}

    def make(idx):
        def handler(request):
            calls.append(idx)
            kind = OUTCOMES[outcome]
            if kind in ("answer", "err_preset"):
                produced["ans"] = _answer_for(request, kind)
                return produced["ans"]
            if kind == "none":
                return None
            if kind == "str":
                return "not an answer"
            if kind == "request":
                return request
            if kind == "fresh_request":
                return DiameterRequest(command_code=request.header.command_code, application_id=request.header.application_id)
            if kind == "int":
                return 2001
            if kind == "raises_noargs":
                raise KeyError()                     # an exception without arguments
            if kind == "raises_assert":
                assert request is None               # AssertionError, no arguments
            if kind == "raises_nested":
                try:
                    {}["missing"]
                except KeyError as inner:
                    raise RuntimeError(("tuple", 1), b"bytes") from inner
            raise ValueError("handler failed")
        if not P["same_name"]:
            handler.__name__ = f"handler_{idx}"
        return handler
    table = [tuple(x) for x in P["table"]]          # registered pairs (indices into PAIRS)
    for idx, (a, c) in enumerate(table):
        app.route(application_id=APPS[a], command_code=CMDS[c])(make(idx))
    a, c = table[target]
    req = DiameterRequest(command_code=CMDS[c], application_id=APPS[a])
    req.header.hop_by_hop = hbh
    req.header.end_to_end = e2e
    req.append(SessionIdAVP(sid))
    req.append(OriginHostAVP("peer.host.example"))
    req.append(OriginRealmAVP("peer.realm.example"))
    req.append(DestinationRealmAVP("realm.example"))
    req.append(UserNameAVP("u"))
    raised = None
    try:
        app.callback_route(req)
    except BM.BromeliaException:
        raised = "BromeliaException"
    except LIB as e:
        raised = type(e).__name__
    reached()
    kind = OUTCOMES[outcome]
    sent_all = [(i, m) for i, w in enumerate(workers) for m in w.send_queue.items]
    if REPLAY: note(table=table, target=target, outcome=kind, handlers_run=calls, sent=len(sent_all), raised=raised)
    if calls != [target]:
        return False
    if len(sent_all) != 1:
        return False
    wi, m = sent_all[0]
    if wi != a:                                   # handed to the worker of the request's application
        return False
    ok = (not m.header.is_request() and m.header.hop_by_hop == hbh.to_bytes(4, "big")
          and m.header.end_to_end == e2e.to_bytes(4, "big") and m.header.application_id == APPS[a]
          and m.header.command_code == CMDS[c] and m.get_length() == len(m.dump()))
    sids = [x for x in m.avps if x.get_code() == 263]
    ok = ok and len(sids) == 1 and sids[0].data == sid
    if kind in ("answer", "err_preset"):
        ok = ok and m is produced["ans"] and raised is None
        rc = [x for x in m.avps if x.get_code() == 268]
        ok = ok and len(rc) == 1 and m.header.is_error() == (kind == "err_preset")
    else:
        cfg = workers[a].app.config

        def one(code):
            xs = [x.data for x in m.avps if x.get_code() == code]
            return xs[0] if len(xs) == 1 else None
        ok = ok and one(268) == DIAMETER_UNABLE_TO_COMPLY
        ok = ok and one(264) == cfg["LOCAL_NODE_HOSTNAME"].encode() and one(296) == cfg["LOCAL_NODE_REALM"].encode()
        ok = ok and one(293) == b"peer.host.example" and one(283) == b"peer.realm.example"
        ok = ok and isinstance(m, DiameterAnswer)
    return ok


def queries(tier, seed):
    t = 120 if tier == "quick" else 900
    tables = {"full": [[0, 0], [0, 1], [1, 0], [1, 1]], "shared_code": [[0, 0], [1, 0]], "one_app": [[0, 0], [0, 1]],
              "single": [[1, 1]], "diagonal": [[0, 1], [1, 0]]}
    qs = []
    for name, tb in tables.items():
        for same in ((True, False) if (tier != "quick" or name in ("full", "shared_code")) else (True,)):
            for L in ((2,) if tier == "quick" else (1, 2, 3, 4)):
                qs.append(Q(f"dispatch/{name}/{'same' if same else 'distinct'}_names/L{L}", "dispatch",
                            {"table": tb, "same_name": same, "L": L}, cto=t, pto=t,
                            what=f"route table {name} ({len(tb)} pairs), handlers {'share one __name__' if same else 'have distinct names'}: "
                                 f"target pair, handler outcome (11 kinds), ids and Session-Id ({L} bytes) symbolic"))
    return qs


BOUNDS = ["route tables over 2 applications x 2 command codes (5 shapes incl. a code shared across applications)",
          "handler outcomes: answer, answer with E preset, None, str, int, the request object, a fresh request, raises ValueError(msg) / KeyError() without arguments / AssertionError / chained RuntimeError with non-str arguments", "identifiers: all 32-bit values; "
          "Session-Id: all byte strings of the grid length"]
OUTSIDE = ["requests for an unregistered (application, command) pair", "requests without Session-Id / Origin-Host / Origin-Realm (the fallback answer "
           "is defined in terms of them)", "handlers raising BaseException subclasses that are not Exception",
           "Application-IDs / command codes are dict keys: 2x2 concrete constants (the code only hashes and compares them)"]
ASSUMPTIONS = ["threading.Barrier stand-in: wait() breaks immediately (the code treats both outcomes alike)",
               "in-process worker: real Worker.set_outgoing_message on stand-in lock/queue/event"]
