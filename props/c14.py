"""C14 - a waiting sender gets its own answer, matched by Hop-by-Hop id, and always wakes.

Threads (all real methods, coroutinised from the current source): k callers Bromelia.send_message(req_i),
k dispatchers Bromelia.handler_pending_answers(ans_j) (enabled only after request j was handed to the peer),
the worker's send_handler loop (daemon).  Stand-ins: Lock/Event/Queue/Barrier from vf.cosched.
Preemption points: every blocking operation and every access to the shared pending-answer registry.
Symbolic: the scheduler choice vector (solver integers, DESIGN 2.4).  The arrival order of answers is a
consequence of scheduling.
"""
from typing import List

from vf.driver import Q
from vf.h import REPLAY, P, reached, note, lib_errors, untraced
from vf import cosched as CS

from crosshair.core import IgnoreAttempt

from bromelia import bromelia as BM
from bromelia.base import DiameterMessage, DiameterHeader

PROPERTY = "C14"
LEVEL = "model_checking"
LIB = lib_errors()

BLOCKING = ["wait", "notify", "acquire", "get", "send_message", "handler_pending_answers", "remove_pending_answer",
            "set_outgoing_message", "get_outgoing_message", "get_outgoing_messages"]
POINTS = ["insert_pending_answer", "is_pending_answer", "get_pending_answer", "update_msg", "pop", "is_running"]


_PRIMS = {}          # real primitive -> stand-in, per harness run (class-level primitives are shared by all waiters)


class HPending(BM.PendingAnswer):
    def __init__(self, msg):
        BM.PendingAnswer.__init__(self, msg)          # the real constructor; whatever primitives it (or the class) holds
        CS.standinize(self, _PRIMS)                    # are replaced by scheduler stand-ins, under whatever attribute name
    wait = CS.coroutinize(BM.PendingAnswer.wait, BLOCKING)
    notify = CS.coroutinize(BM.PendingAnswer.notify, BLOCKING)


class _Log:
    def debug(self, *a, **k):
        pass


class HDiameter:
    """what the worker process hands messages to (the connection layer): records them"""

    def __init__(self):
        self.sent = []

    def send_message(self, msg):
        self.sent.append(msg)

    def send_messages(self, msgs):
        self.sent.extend(msgs)


class _Mgr:
    """multiprocessing.Manager() as the Worker constructor sees it: the shared primitives are scheduler stand-ins"""
    Event = staticmethod(lambda: CS.HEvent())
    Queue = staticmethod(lambda: CS.HQueue())
    Lock = staticmethod(lambda: CS.HLock())


APP_IDS = [b"\x01\x00\x00\x23", b"\x01\x00\x00\x31"]        # S6a, SWx: one worker (Diameter interface) each


def _reset_class_state(cls):
    for k, v in list(vars(cls).items()):
        if isinstance(v, (dict, list, set)) and not k.startswith("__"):
            v.clear()                       # class-level registries are process-wide: empty at the start of every run


class HWorker(BM.Worker):
    """the REAL Worker object (its own constructor builds its registries and primitives, from a stand-in manager); only the
    methods that contain blocking operations are replaced by their coroutinised versions"""

    def __init__(self, app_id):
        app = HDiameter()
        app.config = {"APPLICATIONS": [{"vendor_id": b"\x00\x00\x28\xaf", "app_id": app_id}]}
        BM.Worker.__init__(self, app, _Mgr)
        self.logger = _Log()
        CS.standinize(self, _PRIMS)

    def is_running(self):
        return True
    # real methods containing blocking operations, coroutinised
    set_outgoing_message = CS.coroutinize(BM.Worker.set_outgoing_message, BLOCKING)
    remove_pending_answer = CS.coroutinize(BM.Worker.remove_pending_answer, BLOCKING, points=["pop"])
    get_outgoing_message = CS.coroutinize(BM.Worker.get_outgoing_message, BLOCKING)
    get_outgoing_messages = CS.coroutinize(BM.Worker.get_outgoing_messages, BLOCKING)
    send_handler = CS.coroutinize(BM.Worker.send_handler, ["wait", "get_outgoing_message", "get_outgoing_messages"])


class HApp(BM.Bromelia):
    WORKER = HWorker

    def __init__(self, nworkers=1):
        _reset_class_state(BM.Worker)
        # the REAL constructor builds the application object; only its file I/O is stubbed, and every primitive it created
        # (the three Barriers, under whatever name) becomes a scheduler stand-in
        keep = (BM._convert_file_to_config, BM.get_app_name)
        BM._convert_file_to_config, BM.get_app_name = (lambda f, g: []), (lambda f: "app")
        try:
            BM.Bromelia.__init__(self)
        finally:
            BM._convert_file_to_config, BM.get_app_name = keep
        CS.standinize(self, _PRIMS, class_level=False)
        self.ws = [self.WORKER(APP_IDS[i]) for i in range(nworkers)]
        self.w = self.ws[0]
        self.associations = {APP_IDS[i]: w for i, w in enumerate(self.ws)}
    send_message = CS.coroutinize(BM.Bromelia.send_message, BLOCKING, rebind={"PendingAnswer": HPending}, points=POINTS)
    handler_pending_answers = CS.coroutinize(BM.Bromelia.handler_pending_answers, BLOCKING, points=POINTS)


class HPendingL(HPending):
    wait = CS.coroutinize(BM.PendingAnswer.wait, BLOCKING, lines=True)
    notify = CS.coroutinize(BM.PendingAnswer.notify, BLOCKING, lines=True)


class HWorkerL(HWorker):
    set_outgoing_message = CS.coroutinize(BM.Worker.set_outgoing_message, BLOCKING, lines=True)
    remove_pending_answer = CS.coroutinize(BM.Worker.remove_pending_answer, BLOCKING, lines=True)


class HAppL(HApp):
    """source-line granularity: a preemption point in front of every statement of the caller/dispatcher paths"""
    WORKER = HWorkerL
    send_message = CS.coroutinize(BM.Bromelia.send_message, BLOCKING, rebind={"PendingAnswer": HPendingL}, points=POINTS, lines=True)
    handler_pending_answers = CS.coroutinize(BM.Bromelia.handler_pending_answers, BLOCKING, points=POINTS, lines=True)


def _mk(flags, hbh, app_id=APP_IDS[0], e2e=None):
    return DiameterMessage(DiameterHeader(flags=flags, command_code=316, application_id=app_id, hop_by_hop=hbh, end_to_end=hbh + 100 if e2e is None else e2e))


def rendezvous(c: List[bool]) -> bool:
    """
    pre: len(c) == P["K"]
    post: _
    """
    with untraced():
        return _run(c)


def _run(c):
    _PRIMS.clear()
    k = P["k"]
    nw = P.get("workers", 1)
    app = HAppL(nw) if P.get("lines") else HApp(nw)
    # caller i uses Diameter interface (worker) i mod nw; with "same_hbh" the requests on different interfaces carry the SAME
    # Hop-by-Hop identifier (identifiers are only unique per connection)
    hb = (lambda i: 10) if P.get("same_hbh") else (lambda i: 10 + i)
    reqs = [_mk(0xc0, hb(i), APP_IDS[i % nw], e2e=200 + i) for i in range(k)]
    answers = [_mk(0x40, hb(i), APP_IDS[i % nw], e2e=200 + i) for i in range(k)]
    wof = lambda i: app.ws[i % nw]
    extra = P.get("stray")            # an answer nobody waits for (unknown Hop-by-Hop)
    s = CS.Sched(c, max_preempt=P.get("maxp"))
    for i in range(k):
        s.spawn(f"C{i}", app.send_message(reqs[i]))
    for i in range(k):
        s.spawn(f"D{i}", app.handler_pending_answers(answers[i]), enabled=(lambda i=i: reqs[i] in wof(i).app.sent))
    if extra:
        s.spawn("Dx", app.handler_pending_answers(_mk(0x40, 999)))
    wnames = []
    for j, w in enumerate(app.ws):
        wnames.append("W" if j == 0 else f"W{j + 1}")
        s.spawn(wnames[-1], w.send_handler(), daemon=True)
        if P.get("eagerW"):
            s.eager.add(wnames[-1])
    try:
        if P.get("phase") == "dispatch":
            # pre-state: every caller parked in wait(), every request on the wire; only the dispatch phase is scheduled
            s.prelude([f"C{i}" for i in range(k)] + wnames)
        res = s.run()
    except CS.Prune:
        raise IgnoreAttempt("schedule bound")
    except CS.Deadlock as d:
        reached()
        if REPLAY: note(deadlock=d.who, schedule=s.trace)
        return False
    reached()
    ok = all(res.get(f"C{i}") is answers[i] for i in range(k))
    ok = ok and all(len(w.pending_answers) == 0 for w in app.ws) and sum(len(w.app.sent) for w in app.ws) == k
    if REPLAY: note(schedule=s.trace, returned=[(res.get(f"C{i}").header.hop_by_hop.hex() if res.get(f"C{i}") is not None else None) for i in range(k)])
    return ok


def queries(tier, seed):
    t = 150 if tier == "quick" else 1800
    qs = [Q("k1/ops", "rendezvous", {"k": 1, "K": 14}, cto=t, pto=t, what="1 caller, 1 dispatcher, sender daemon at synchronisation-operation granularity: every schedule"),
          Q("k1/lines/P3", "rendezvous", {"k": 1, "K": 60, "lines": True, "eagerW": True, "maxp": 3}, cto=t, pto=t,
            what="1 caller, 1 dispatcher at source-line granularity (sender daemon eager): every schedule with <= 3 preemptions (~1000 schedules)"),
          Q("k2/dispatch/ops/P2", "rendezvous", {"k": 2, "K": 60, "phase": "dispatch", "eagerW": True, "maxp": 2}, cto=t, pto=t,
            what="2 parked callers, 2 dispatchers interleaved at every registry access / blocking operation: <= 2 preemptions (~1500 schedules)"),
          Q("k2/full/P1", "rendezvous", {"k": 2, "K": 30, "maxp": 1, "eagerW": True}, cto=t, pto=t, what="2 callers + 2 dispatchers from the start, <= 1 preemption, sender eager (~3000 schedules)")]
    qs.append(Q("k2/two-interfaces/same-hbh/P2", "rendezvous", {"k": 2, "K": 60, "workers": 2, "same_hbh": True, "phase": "dispatch", "eagerW": True, "maxp": 2}, cto=t, pto=t,
                what="2 callers on 2 Diameter interfaces (one Worker each) whose requests carry the SAME Hop-by-Hop identifier, both parked; 2 dispatchers, <= 2 preemptions"))
    if tier != "quick":
        T = 2400
        qs.append(Q("k2/two-interfaces/same-hbh/full/P1", "rendezvous", {"k": 2, "K": 40, "workers": 2, "same_hbh": True, "maxp": 1, "eagerW": True}, cto=t, pto=t,
                    what="the same from the start of both calls, <= 1 preemption"))
        qs += [Q("k1/stray", "rendezvous", {"k": 1, "K": 24, "stray": True}, cto=t, pto=t, what="stray answer with an unknown Hop-by-Hop, unbounded preemptions"),
               Q("k1/lines/all", "rendezvous", {"k": 1, "K": 60, "lines": True, "eagerW": True}, cto=T, pto=T, what="k=1 at source-line granularity, unbounded preemptions (~175 000 schedules)"),
               Q("k2/dispatch/ops/all", "rendezvous", {"k": 2, "K": 60, "phase": "dispatch", "eagerW": True}, cto=t, pto=t, what="dispatch phase, unbounded preemptions (~13 000 schedules)"),
               Q("k2/dispatch/lines/P2", "rendezvous", {"k": 2, "K": 90, "phase": "dispatch", "eagerW": True, "lines": True, "maxp": 2}, cto=T, pto=T, what="dispatch phase at line granularity, <= 2 preemptions"),
               Q("k2/full/P2", "rendezvous", {"k": 2, "K": 36, "maxp": 2, "eagerW": True}, cto=T, pto=T, what="2 callers, <= 2 preemptions"),
               Q("k2/full/P1/freeW", "rendezvous", {"k": 2, "K": 30, "maxp": 1}, cto=t, pto=t, what="2 callers, <= 1 preemption, sender daemon scheduled freely"),
               Q("k3/dispatch/ops/P2", "rendezvous", {"k": 3, "K": 80, "phase": "dispatch", "eagerW": True, "maxp": 2}, cto=T, pto=T, what="3 parked callers, 3 dispatchers, <= 2 preemptions")]
    return qs


BOUNDS = ["the Worker objects are built by the REAL Worker constructor from a stand-in manager (class-level registries emptied per run); 1 interface, and 2 interfaces with equal Hop-by-Hop identifiers",
          "quick: k=1 every schedule at sync-op granularity, k=1 at source-line granularity with <= 3 preemptions, k=2 dispatch phase (both callers parked) with <= 2 preemptions, k=2 whole scenario with <= 1 preemption; thorough: the same without preemption bound / with larger bounds, k=3",
          "preemption points: every blocking operation and every pending-answer registry access; in the 'lines' queries additionally before every statement of send_message, handler_pending_answers, PendingAnswer.wait/notify, Worker.set_outgoing_message/remove_pending_answer",
          "scheduler choices are boolean solver variables (unary encoding); the sender daemon runs eagerly in the queries marked so"]
OUTSIDE = ["two outstanding requests with the same Hop-by-Hop id on the SAME interface (excluded by C15; on different interfaces it is covered)", "preemption between bytecodes of one statement without a yield point",
           "real OS timing; multiprocessing.Manager proxies (in-process stand-ins)", "timeouts fire only at quiescence"]
ASSUMPTIONS = ["stand-in Lock/Event/Queue/Barrier implement the documented blocking contracts", "an answer cannot reach the dispatcher before its request was handed to the connection layer"]
