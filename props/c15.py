"""C15 - request identifiers are never reused within a process.

Encoded (real code): DiameterRequest.__init__, the two name-mangled draw-until-unused loops, typed request
constructors, DiameterAnswer.__init__, DiameterRequest(header=...).
Stub: bromelia.base.os.urandom returns the next element of a *symbolic* list of 4-byte values (any values,
repeats allowed); exhausting the list prunes the path (the loop is unbounded by design; fuel = list length).
Inductive step: registries = arbitrary lists H, E of m distinct ids (invariant "registry == everything issued");
create one request; new ids not in H/E and H' = H+[hbh], E' = E+[e2e].  Covers histories of any length.
Concurrency clause: the two constructors' check-then-append windows under a symbolic scheduler (E3).
"""
from typing import List

from vf.driver import Q
from vf.h import REPLAY, P, reached, note, lib_errors

from crosshair.core import IgnoreAttempt

from bromelia import base as BASE
from bromelia.base import DiameterRequest, DiameterAnswer, DiameterHeader, DiameterMessage

PROPERTY = "C15"
LEVEL = "model_checking"
LIB = lib_errors()


class _OS:
    """stand-in for the `os` module as seen by bromelia.base (only urandom is used there)"""
    seq: List[int] = []
    i = 0
    log: List[bytes] = []

    @classmethod
    def urandom(cls, n):
        if n != 4:
            raise AssertionError("urandom width")
        if cls.i >= len(cls.seq):
            raise IgnoreAttempt("random source exhausted (bound on draws)")
        v = cls.seq[cls.i]
        cls.i += 1
        b = v.to_bytes(4, "big")
        cls.log.append(b)
        return b


BASE.os = _OS


def _typed_classes():
    import bromelia.lib as lib
    import importlib, pkgutil, inspect
    out = {}
    for m in pkgutil.iter_modules(lib.__path__):
        try:
            mod = importlib.import_module(f"bromelia.lib.{m.name}.messages")
        except BaseException:
            continue
        for name, cls in vars(mod).items():
            if inspect.isclass(cls) and issubclass(cls, DiameterRequest) and cls is not DiameterRequest \
                    and cls.__module__ == mod.__name__:
                out[f"{m.name}.{name}"] = cls
    return out


def _make(kind):
    if kind == "generic":
        return DiameterRequest(command_code=316, application_id=16777251)
    if kind == "generic0":
        return DiameterRequest()
    if kind == "DWR":
        from bromelia.messages import DWR
        return DWR(origin_host="h", origin_realm="r")
    if kind == "CER":
        from bromelia.messages import CER
        return CER(origin_host="h", origin_realm="r", host_ip_address="10.0.0.1")
    if kind == "STR":
        from bromelia.messages import STR
        return STR(session_id=b"x;1;1", origin_host="h", origin_realm="r", destination_realm="d",
                   auth_application_id=bytes.fromhex("01000023"), termination_cause=bytes.fromhex("00000001"))
    raise KeyError(kind)


def step(h: List[int], e: List[int], draws: List[int]) -> bool:
    """
    pre: len(h) == P["m"] and len(e) == P["m"] and len(draws) == P["d"]
    pre: all(0 <= x < 2**32 for x in h) and all(0 <= x < 2**32 for x in e) and all(0 <= x < 2**32 for x in draws)
    pre: len(set(h)) == len(h) and len(set(e)) == len(e)
    post: _
    """
    H = [x.to_bytes(4, "big") for x in h]
    E = [x.to_bytes(4, "big") for x in e]
    DiameterRequest.hop_by_hop_identifiers = list(H)
    DiameterRequest.end_to_end_identifiers = list(E)
    _OS.seq, _OS.i, _OS.log = draws, 0, []
    r = _make(P["kind"])
    reached()
    hb, ee = r.header.hop_by_hop, r.header.end_to_end
    if REPLAY: note(registry_h=[x.hex() for x in H], registry_e=[x.hex() for x in E], hbh=hb.hex(), e2e=ee.hex(),
         draws=[x.hex() for x in _OS.log])
    fresh = hb not in H and ee not in E
    inv = DiameterRequest.hop_by_hop_identifiers == H + [hb] and DiameterRequest.end_to_end_identifiers == E + [ee]
    width = len(hb) == 4 and len(ee) == 4
    drawn = hb in _OS.log and ee in _OS.log
    return fresh and inv and width and drawn


def no_consume(h0: int, e0: int, hh: int, he: int) -> bool:
    """
    pre: 0 <= h0 < 2**32 and 0 <= e0 < 2**32 and 0 <= hh < 2**32 and 0 <= he < 2**32
    post: _
    """
    # answers and requests built from an explicit header never consume or alter identifiers
    H, E = [h0.to_bytes(4, "big")], [e0.to_bytes(4, "big")]
    DiameterRequest.hop_by_hop_identifiers = list(H)
    DiameterRequest.end_to_end_identifiers = list(E)
    _OS.seq, _OS.i, _OS.log = [], 0, []          # any draw prunes -> would show up as unreachable/harness problem
    hdr = DiameterHeader(command_code=272, application_id=4, hop_by_hop=hh, end_to_end=he)
    drew = False
    try:
        kind = P["kind"]
        if kind == "answer":
            m = DiameterAnswer(command_code=316, application_id=16777251)
            ok = m.header.hop_by_hop == bytes(4) and m.header.end_to_end == bytes(4)
        elif kind == "answer_hdr":
            m = DiameterAnswer(header=hdr)
            ok = m.header.hop_by_hop == hh.to_bytes(4, "big") and m.header.end_to_end == he.to_bytes(4, "big")
        elif kind == "request_hdr":
            m = DiameterRequest(header=hdr)
            ok = m.header.hop_by_hop == hh.to_bytes(4, "big") and m.header.end_to_end == he.to_bytes(4, "big")
        elif kind == "message":
            m = DiameterMessage(hdr)
            ok = m.header.hop_by_hop == hh.to_bytes(4, "big")
        else:
            from bromelia.messages import DWA
            m = DWA(origin_host="h", origin_realm="r")
            ok = True
    except IgnoreAttempt:
        drew = True
        ok = False
    reached()
    return (not drew) and ok and DiameterRequest.hop_by_hop_identifiers == H and DiameterRequest.end_to_end_identifiers == E


def sequence(draws: List[int]) -> bool:
    """
    pre: len(draws) == P["d"] and all(0 <= x < 2**32 for x in draws)
    post: _
    """
    # bounded history from an empty registry: mixed classes, adversarially repeating random source
    DiameterRequest.hop_by_hop_identifiers = []
    DiameterRequest.end_to_end_identifiers = []
    _OS.seq, _OS.i, _OS.log = draws, 0, []
    reqs = [_make(k) for k in P["kinds"]]
    reached()
    hs = [r.header.hop_by_hop for r in reqs]
    es = [r.header.end_to_end for r in reqs]
    if REPLAY: note(hbh=[x.hex() for x in hs], e2e=[x.hex() for x in es])
    n = len(reqs)
    distinct = all(hs[i] != hs[j] and es[i] != es[j] for i in range(n) for j in range(i + 1, n))
    return distinct and DiameterRequest.hop_by_hop_identifiers == hs and DiameterRequest.end_to_end_identifiers == es


# ------------------------------------------------------------------ concurrency clause (E3)
def concurrent(draws: List[int], sched: List[int]) -> bool:
    """
    pre: len(draws) == P["d"] and all(0 <= x < 2**32 for x in draws)
    pre: len(sched) == P["K"] and all(0 <= c <= 1 for c in sched)
    post: _
    """
    from vf import cosched as CS
    DiameterRequest.hop_by_hop_identifiers = []
    DiameterRequest.end_to_end_identifiers = []
    _OS.seq, _OS.i, _OS.log = draws, 0, []
    got = {}
    Req = CS.preemptible_request_class()

    def thread(name):
        r = yield from Req.create()
        got[name] = r
    s = CS.Sched(sched)
    s.spawn("T1", thread("T1"))
    s.spawn("T2", thread("T2"))
    try:
        s.run()
    except CS.Prune:
        raise IgnoreAttempt("schedule bound")
    reached()
    a, b = got["T1"], got["T2"]
    if REPLAY: note(t1=(a.header.hop_by_hop.hex(), a.header.end_to_end.hex()), t2=(b.header.hop_by_hop.hex(), b.header.end_to_end.hex()),
         schedule=list(sched))
    return a.header.hop_by_hop != b.header.hop_by_hop and a.header.end_to_end != b.header.end_to_end


def queries(tier, seed):
    t = 90 if tier == "quick" else 600
    qs = []
    kinds = ["generic", "DWR", "STR"] if tier == "quick" else ["generic", "generic0", "DWR", "CER", "STR"]
    for kind in kinds:
        for m, d in ([(0, 2), (2, 4)] if tier == "quick" else [(0, 2), (1, 3), (2, 4), (3, 5), (3, 6)]):
            qs.append(Q(f"step/{kind}/m{m}d{d}", "step", {"kind": kind, "m": m, "d": d}, cto=t, pto=t,
                        what=f"inductive step: registry of {m} symbolic ids, {d} symbolic draws (repeats allowed), one {kind} request"))
    for kind in ("answer", "answer_hdr", "request_hdr", "message", "typed_answer"):
        qs.append(Q(f"no_consume/{kind}", "no_consume", {"kind": kind}, cto=t, pto=t,
                    what=f"{kind}: registries and random source untouched"))
    seqs = [(["generic", "DWR"], 5)] if tier == "quick" else [(["generic", "DWR"], 5), (["generic", "generic", "generic"], 7),
                                                                   (["DWR", "STR", "generic"], 7)]
    for kinds_, d in seqs:
        qs.append(Q(f"sequence/{'-'.join(kinds_)}/d{d}", "sequence", {"kinds": kinds_, "d": d}, cto=t, pto=t,
                    what=f"history {kinds_} with {d} symbolic draws"))
    return qs


BOUNDS = ["registry size m <= 2 (quick) / 3 (thorough), contents symbolic; random draws d <= 4/6 symbolic 32-bit values",
          "request classes: generic + DWR/STR (quick) + CER (thorough)"]
OUTSIDE = ["more than d draws before a fresh value appears (the loop is unbounded by design)",
           "registries larger than m (covered inductively: the step is checked from an arbitrary registry satisfying the invariant)"]
ASSUMPTIONS = ["os.urandom(4) returns arbitrary 4-byte values (stub: next element of a symbolic list)",
               "registry invariant: hop_by_hop_identifiers/end_to_end_identifiers hold exactly the ids issued so far"]
