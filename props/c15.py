"""C15 - request identifiers are never reused within a process.

Encoded (real code): DiameterRequest.__init__, the two name-mangled draw-until-unused loops, typed request
constructors, DiameterAnswer.__init__, DiameterRequest(header=...).
Stub: bromelia.base.os.urandom returns the next element of a *symbolic* list of 4-byte values (any values,
repeats allowed); exhausting the list prunes the path (the loop is unbounded by design; fuel = list length).
Inductive step: registries = arbitrary lists H, E of m distinct ids (invariant "registry == everything issued");
create one request; new ids not in H/E and H' = H+[hbh], E' = E+[e2e].  Covers histories of any length.
Concurrency clause: the two constructors' check-then-append windows under a symbolic scheduler (E3).
"""
from typing import List

from vf.driver import Q
from vf.h import REPLAY, P, reached, note, lib_errors, untraced

from crosshair.core import IgnoreAttempt

from bromelia import base as BASE
from bromelia.base import DiameterRequest, DiameterAnswer, DiameterHeader, DiameterMessage

PROPERTY = "C15"
LEVEL = "model_checking"
LIB = lib_errors()


class _OS:
    """stand-in for the `os` module as seen by bromelia.base (only urandom is used there)"""
    seq: List[int] = []
    two_valued = False
    i = 0
    log: List[bytes] = []

    @classmethod
    def urandom(cls, n):
        if n != 4:
            raise AssertionError("urandom width")
        if cls.i >= len(cls.seq):
            raise IgnoreAttempt("random source exhausted (bound on draws)")
        if cls.two_valued:
            # concurrency queries: the source yields one of two values per draw (a boolean solver variable each);
            # only the equality pattern of the draws matters to the code under test
            from vf.h import traced
            with traced():
                v = 0x5eed0001 if cls.seq[cls.i] else 0x5eed0000
        else:
            v = cls.seq[cls.i]
        cls.i += 1
        b = v.to_bytes(4, "big")
        cls.log.append(b)
        return b


BASE.os = _OS


def _typed_classes():
    import bromelia.lib as lib
    import importlib, pkgutil, inspect
    out = {}
    for m in pkgutil.iter_modules(lib.__path__):
        try:
            mod = importlib.import_module(f"bromelia.lib.{m.name}.messages")
        except BaseException:
            continue
        for name, cls in vars(mod).items():
            if inspect.isclass(cls) and issubclass(cls, DiameterRequest) and cls is not DiameterRequest \
                    and cls.__module__ == mod.__name__:
                out[f"{m.name}.{name}"] = cls
    return out


def _make(kind):
    if kind == "generic":
        return DiameterRequest(command_code=316, application_id=16777251)
    if kind == "generic0":
        return DiameterRequest()
    if kind == "DWR":
        from bromelia.messages import DWR
        return DWR(origin_host="h", origin_realm="r")
    if kind == "CER":
        from bromelia.messages import CER
        return CER(origin_host="h", origin_realm="r", host_ip_address="10.0.0.1")
    if kind == "STR":
        from bromelia.messages import STR
        return STR(session_id=b"x;1;1", origin_host="h", origin_realm="r", destination_realm="d",
                   auth_application_id=bytes.fromhex("01000023"), termination_cause=bytes.fromhex("00000001"))
    raise KeyError(kind)


def _fill(H, E):
    """install a registry pre-state IN PLACE (the real container objects are kept, whatever their type)"""
    for reg, vals in ((DiameterRequest.hop_by_hop_identifiers, H), (DiameterRequest.end_to_end_identifiers, E)):
        reg.clear()
        reg.extend(vals)


def step(h: List[int], e: List[int], draws: List[int]) -> bool:
    """
    pre: len(h) == P["m"] and len(e) == P["m"] and len(draws) == P["d"]
    pre: all(0 <= x < 2**32 for x in h) and all(0 <= x < 2**32 for x in e) and all(0 <= x < 2**32 for x in draws)
    pre: len(set(h)) == len(h) and len(set(e)) == len(e)
    post: _
    """
    H = [x.to_bytes(4, "big") for x in h]
    E = [x.to_bytes(4, "big") for x in e]
    _fill(H, E)
    _OS.seq, _OS.i, _OS.log = draws, 0, []
    r = _make(P["kind"])
    reached()
    hb, ee = r.header.hop_by_hop, r.header.end_to_end
    if REPLAY: note(registry_h=[x.hex() for x in H], registry_e=[x.hex() for x in E], hbh=hb.hex(), e2e=ee.hex(),
         draws=[x.hex() for x in _OS.log])
    fresh = hb not in H and ee not in E
    inv = list(DiameterRequest.hop_by_hop_identifiers) == H + [hb] and list(DiameterRequest.end_to_end_identifiers) == E + [ee]
    width = len(hb) == 4 and len(ee) == 4
    drawn = hb in _OS.log and ee in _OS.log
    return fresh and inv and width and drawn


def no_consume(h0: int, e0: int, hh: int, he: int) -> bool:
    """
    pre: 0 <= h0 < 2**32 and 0 <= e0 < 2**32 and 0 <= hh < 2**32 and 0 <= he < 2**32
    post: _
    """
    # answers and requests built from an explicit header never consume or alter identifiers
    H, E = [h0.to_bytes(4, "big")], [e0.to_bytes(4, "big")]
    _fill(H, E)
    _OS.seq, _OS.i, _OS.log = [], 0, []          # any draw prunes -> would show up as unreachable/harness problem
    hdr = DiameterHeader(command_code=272, application_id=4, hop_by_hop=hh, end_to_end=he)
    drew = False
    try:
        kind = P["kind"]
        if kind == "answer":
            m = DiameterAnswer(command_code=316, application_id=16777251)
            ok = m.header.hop_by_hop == bytes(4) and m.header.end_to_end == bytes(4)
        elif kind == "answer_hdr":
            m = DiameterAnswer(header=hdr)
            ok = m.header.hop_by_hop == hh.to_bytes(4, "big") and m.header.end_to_end == he.to_bytes(4, "big")
        elif kind == "request_hdr":
            m = DiameterRequest(header=hdr)
            ok = m.header.hop_by_hop == hh.to_bytes(4, "big") and m.header.end_to_end == he.to_bytes(4, "big")
        elif kind == "message":
            m = DiameterMessage(hdr)
            ok = m.header.hop_by_hop == hh.to_bytes(4, "big")
        else:
            from bromelia.messages import DWA
            m = DWA(origin_host="h", origin_realm="r")
            ok = True
    except IgnoreAttempt:
        drew = True
        ok = False
    reached()
    return (not drew) and ok and list(DiameterRequest.hop_by_hop_identifiers) == H and list(DiameterRequest.end_to_end_identifiers) == E


def sequence(draws: List[int]) -> bool:
    """
    pre: len(draws) == P["d"] and all(0 <= x < 2**32 for x in draws)
    post: _
    """
    # bounded history from an empty registry: mixed classes, adversarially repeating random source
    _fill([], [])
    _OS.seq, _OS.i, _OS.log = draws, 0, []
    reqs = [_make(k) for k in P["kinds"]]
    reached()
    hs = [r.header.hop_by_hop for r in reqs]
    es = [r.header.end_to_end for r in reqs]
    if REPLAY: note(hbh=[x.hex() for x in hs], e2e=[x.hex() for x in es])
    n = len(reqs)
    distinct = all(hs[i] != hs[j] and es[i] != es[j] for i in range(n) for j in range(i + 1, n))
    return distinct and list(DiameterRequest.hop_by_hop_identifiers) == hs and list(DiameterRequest.end_to_end_identifiers) == es


# ------------------------------------------------------------------ retention (native) and concurrency clause (E3)
def retention():
    """native enumeration: a history of 5000 requests (counting random source), then the oldest values are offered
    again and must still be refused - identifiers are never forgotten (bounded by the history length; not a solver query)"""
    _fill([], [])
    N = 5000
    _OS.seq, _OS.i, _OS.log = list(range(1, 2 * N + 1)), 0, []
    first = None
    for i in range(N):
        r = _make("generic" if i % 50 else "DWR")
        if first is None:
            first = r
    old_h = int.from_bytes(first.header.hop_by_hop, "big")
    old_e = int.from_bytes(first.header.end_to_end, "big")
    _OS.seq, _OS.i = [old_h, 2 * N + 10, old_e, 2 * N + 11], 0
    r = _make("generic")
    ok = r.header.hop_by_hop != first.header.hop_by_hop and r.header.end_to_end != first.header.end_to_end
    if not ok:
        return {"verdict": "cex", "detail": f"after {N} requests the identifiers of the first one are handed out again", "call": f"history of {N}",
                "reproduced": True, "replay": {"verdict": "fails", "history": N}}
    return {"verdict": "proved", "obligation": f"history of {N} requests, oldest identifiers still refused (enumeration)"}


def survives(h1: int, e1: int, h2: int, e2: int) -> bool:
    """
    pre: all(0 <= x < 2**32 for x in (h1, e1, h2, e2)) and h1 != h2 and e1 != e2
    pre: P["op"] != "association" or (h1, e1, h2, e2) == (0x11000001, 0x22000001, 0x11000002, 0x22000002)
    post: _
    """
    # (on the association path the identifiers become dict keys - pending requests - hence concrete there)
    # between two creations the request goes through other PUBLIC operations (grid): the identifiers of the first request
    # must still be refused when the random source offers them again afterwards ("never reused within a process")
    _fill([], [])
    _OS.two_valued = False
    op = P["op"]
    if op == "association":
        # (the node's own base requests draw their identifiers first, from an unrelated range)
        from vf.standin import Node, _DIAMETERS
        _DIAMETERS.clear()
        _OS.seq, _OS.i, _OS.log = list(range(0x33000000, 0x33000040)), 0, []
        node = Node("CLIENT", watchdog=10 ** 6)
    _OS.seq, _OS.i, _OS.log = [h1, e1, h1, h2, e1, e2], 0, []
    r1 = _make(P["kind"])
    if True:
        if op == "association":
            # queued on a live association, written out, then the connection is closed and the node object restarted
            node.force_state("Open")
            node.assoc.state_is_active = True
            node.transport.events = [("busy", 1)]
            node.d.send_message(r1)
            node.tick()
            node.flush()
            node.assoc.close()
            Node("CLIENT", reuse=node)
        elif op == "codec":
            from bromelia.base import DiameterMessage
            DiameterMessage.load(r1.dump() + r1.dump())
            r1.copy()
            DiameterMessage.convert(r1)
        elif op == "answers":
            from bromelia.base import DiameterAnswer, DiameterHeader
            DiameterAnswer(header=DiameterHeader(command_code=316, hop_by_hop=r1.header.hop_by_hop, end_to_end=r1.header.end_to_end))
            DiameterRequest(header=DiameterHeader(command_code=316, hop_by_hop=r1.header.hop_by_hop, end_to_end=r1.header.end_to_end))
    r2 = _make(P["kind"])
    reached()
    got = (int.from_bytes(r2.header.hop_by_hop, "big"), int.from_bytes(r2.header.end_to_end, "big"))
    if REPLAY: note(op=op, first=(h1, e1), second=got)
    return int.from_bytes(r1.header.hop_by_hop, "big") == h1 and int.from_bytes(r1.header.end_to_end, "big") == e1 and got == (h2, e2)


_CO = {}


def _co_class():
    """DiameterRequest with its constructor and the two draw-until-unused helpers re-compiled from source as coroutines:
    a preemption point before every statement, os.urandom and the registry lock as blocking operations"""
    if "cls" in _CO:
        return _CO["cls"]
    from vf import cosched as CS
    rd = dict(vars(DiameterRequest))
    names = ["__set_hop_by_hop_identifier", "__set_end_to_end_identifier", "__get_hop_by_hop_identifier", "__get_end_to_end_identifier", "acquire"]
    body = {}
    for k, v in rd.items():
        if callable(v) and (k == "__init__" or k.startswith("_DiameterRequest__")):
            body[k] = CS.coroutinize(v, names, lines=True, mangle="DiameterRequest", locks=["identifiers_lock"])
    body["co_init"] = body.pop("__init__")
    cls = type("CoRequest", (DiameterRequest,), body)
    _CO["cls"] = cls
    return cls


try:                        # compiled at import time (outside CrossHair's tracer)
    _co_class()
except Exception as _e:     # coroutinisation target missing / not transformable: inconclusive, never a finding
    _CO["error"] = _e


def concurrent(draws: List[bool], sched: List[bool]) -> bool:
    """
    pre: len(draws) == P["d"] and len(sched) == P["K"]
    post: _
    """
    from vf.h import untraced
    with untraced():
        _OS.two_valued = True
        try:
            return _concurrent(draws, sched)
        finally:
            _OS.two_valued = False


def _concurrent(draws, sched):
    from vf import cosched as CS
    if "error" in _CO:
        raise IgnoreAttempt(f"coroutinisation failed: {_CO['error']}")
    Co = _co_class()
    _fill([], [])
    if hasattr(DiameterRequest, "identifiers_lock"):
        Co.identifiers_lock = DiameterRequest.identifiers_lock = CS.HLock()
    _OS.seq, _OS.i, _OS.log = draws, 0, []
    got = {}

    def thread(name):
        r = Co.__new__(Co)
        yield from Co.co_init(r, command_code=316, application_id=16777251)
        got[name] = r
    s = CS.Sched(sched, max_preempt=P.get("maxp"))
    for i in range(P["T"]):
        s.spawn(f"T{i}", thread(f"T{i}"))
    try:
        s.run()
    except CS.Prune:
        raise IgnoreAttempt("schedule bound")
    except CS.Deadlock:
        reached()
        return False
    reached()
    rs = [got[f"T{i}"] for i in range(P["T"])]
    if REPLAY: note(ids=[(r.header.hop_by_hop.hex(), r.header.end_to_end.hex()) for r in rs], schedule=s.trace)
    n = len(rs)
    return all(rs[i].header.hop_by_hop != rs[j].header.hop_by_hop and rs[i].header.end_to_end != rs[j].header.end_to_end
               for i in range(n) for j in range(i + 1, n))


def queries(tier, seed):
    t = 90 if tier == "quick" else 600
    qs = []
    kinds = ["generic", "DWR", "STR"] if tier == "quick" else ["generic", "generic0", "DWR", "CER", "STR"]
    for kind in kinds:
        for m, d in ([(0, 2), (2, 4)] if tier == "quick" else [(0, 2), (1, 3), (2, 4), (3, 5), (3, 6)]):
            qs.append(Q(f"step/{kind}/m{m}d{d}", "step", {"kind": kind, "m": m, "d": d}, cto=t, pto=t,
                        what=f"inductive step: registry of {m} symbolic ids, {d} symbolic draws (repeats allowed), one {kind} request"))
    for op in ("association", "codec", "answers"):
        qs.append(Q(f"survives/{op}", "survives", {"kind": "generic", "op": op}, cto=t, pto=t,
                    what=f"between two creations the first request goes through '{op}' (queued / written / connection closed / node restarted; "
                         f"encoded, decoded, copied, converted; answers and explicit-header requests with its identifiers): its identifiers, "
                         f"offered again by the random source, are still refused (all values symbolic)"))
    for kind in ("answer", "answer_hdr", "request_hdr", "message", "typed_answer"):
        qs.append(Q(f"no_consume/{kind}", "no_consume", {"kind": kind}, cto=t, pto=t,
                    what=f"{kind}: registries and random source untouched"))
    seqs = [(["generic", "DWR"], 5)] if tier == "quick" else [(["generic", "DWR"], 5), (["generic", "generic", "generic"], 7),
                                                                   (["DWR", "STR", "generic"], 7)]
    qs.append(Q("native/retention", "retention", engine="py", cto=120, what="history of 5000 requests, the oldest identifiers are still refused"))
    qs.append(Q("concurrent/T2/P1", "concurrent", {"T": 2, "d": 5, "K": 60, "maxp": 1}, cto=t, pto=t,
                what="2 threads creating requests at source-line granularity, <= 1 preemption, 5 two-valued symbolic draws (repeats allowed)"))
    if tier != "quick":
        qs.append(Q("concurrent/T2/P2", "concurrent", {"T": 2, "d": 6, "K": 80, "maxp": 2}, cto=1800, pto=1800, what="2 threads, <= 2 preemptions"))
        qs.append(Q("concurrent/T3/P2", "concurrent", {"T": 3, "d": 9, "K": 90, "maxp": 2}, cto=1800, pto=1800, what="3 threads, <= 2 preemptions"))
    for kinds_, d in seqs:
        qs.append(Q(f"sequence/{'-'.join(kinds_)}/d{d}", "sequence", {"kinds": kinds_, "d": d}, cto=t, pto=t,
                    what=f"history {kinds_} with {d} symbolic draws"))
    return qs


BOUNDS = ["registry size m <= 2 (quick) / 3 (thorough), contents symbolic; random draws d <= 4/6 symbolic 32-bit values",
          "request classes: generic + DWR/STR (quick) + CER (thorough)"]
OUTSIDE = ["more than d draws before a fresh value appears (the loop is unbounded by design)", "histories longer than 5000 requests in the retention probe",
           "preemption inside a single statement; more than 1 (quick) / 2 preemptions; random values beyond the equal/different pattern in the concurrency queries",
           "registries larger than m (covered inductively: the step is checked from an arbitrary registry satisfying the invariant)"]
ASSUMPTIONS = ["os.urandom(4) returns arbitrary 4-byte values (stub: next element of a symbolic list)",
               "registry invariant: hop_by_hop_identifiers/end_to_end_identifiers hold exactly the ids issued so far"]
