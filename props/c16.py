"""C16 - generated Session-Ids are unique for the life of the process and well formed.

Encoded (real code): SessionHandler.get_session_id/reset/_verify_session_id, SessionIdAVP.__init__,
AcctMultiSessionIdAVP.__init__, DiameterMessage.update_avps (regeneration branch), typed message constructors.
Stub clock: bromelia._internal_utils.datetime is replaced by a stand-in whose utcnow() - datetime(1900,1,1)
yields days/seconds of a *symbolic* non-decreasing second counter (many generations per second allowed).
Inductive step: pre-state (init0, id0) symbolic; ghost invariant "every id issued so far has (high, low) with
high < init0 or (high == init0 and low <= id0)"; one generation of a symbolic kind; assert form, freshness w.r.t.
the ghost set, and the invariant afterwards.  Bounded sequences give readable counterexamples.
"""
from typing import List

from vf.driver import Q
from vf.h import REPLAY, P, reached, note, lib_errors

from bromelia import _internal_utils as IU
from bromelia._internal_utils import SessionHandler
from bromelia.avps import SessionIdAVP, AcctMultiSessionIdAVP, OriginHostAVP, OriginRealmAVP
from bromelia.base import DiameterMessage

PROPERTY = "C16"
LEVEL = "model_checking"
LIB = lib_errors()


class Num:
    """A number with an *opaque decimal rendering*: arithmetic and comparisons are forwarded to the wrapped
    (possibly symbolic) int, while str()/format() return a concrete token "<Nk>" and record (value, spec) in a
    table.  Rendering symbolic ints with z3's int->string theory made every query explode; the property is
    about which numbers end up in the Session-Id, and Python's own str(int) is trusted to be canonical."""
    table = []
    vals = []       # the wrapped values live here, the instance only holds a concrete handle
                    # (CrossHair's f-string support deep-realises the attributes of the formatted object)

    def __init__(self, v):
        self.h = len(Num.vals)
        Num.vals.append(v.v if isinstance(v, Num) else v)

    @property
    def v(self):
        return Num.vals[self.h]

    @staticmethod
    def val(o):
        return o.v if isinstance(o, Num) else o

    def __add__(self, o): return Num(self.v + Num.val(o))
    def __radd__(self, o): return Num(Num.val(o) + self.v)
    def __sub__(self, o): return Num(self.v - Num.val(o))
    def __rsub__(self, o): return Num(Num.val(o) - self.v)
    def __mul__(self, o): return Num(self.v * Num.val(o))
    def __rmul__(self, o): return Num(Num.val(o) * self.v)
    def __floordiv__(self, o): return Num(self.v // Num.val(o))
    def __mod__(self, o): return Num(self.v % Num.val(o))
    def __and__(self, o): return Num(self.v & Num.val(o))
    def __rand__(self, o): return Num(Num.val(o) & self.v)
    def __or__(self, o): return Num(self.v | Num.val(o))
    def __ror__(self, o): return Num(Num.val(o) | self.v)
    def __xor__(self, o): return Num(self.v ^ Num.val(o))
    def __lshift__(self, o): return Num(self.v << Num.val(o))
    def __rshift__(self, o): return Num(self.v >> Num.val(o))
    def __neg__(self): return Num(-self.v)
    def __eq__(self, o): return self.v == Num.val(o)
    def __ne__(self, o): return self.v != Num.val(o)
    def __lt__(self, o): return self.v < Num.val(o)
    def __le__(self, o): return self.v <= Num.val(o)
    def __gt__(self, o): return self.v > Num.val(o)
    def __ge__(self, o): return self.v >= Num.val(o)
    def __hash__(self): return id(self)
    def __int__(self): return self.v
    def __index__(self): return self.v
    def __bool__(self): return self.v != 0

    def __format__(self, spec):
        Num.table.append((self.v, spec))
        return f"<N{len(Num.table) - 1}>"

    def __str__(self): return self.__format__("")
    def __repr__(self): return self.__format__("")


class _Diff:
    def __init__(self, s):
        self.days = s // 86400
        self.seconds = s % 86400


class _DT:
    now = Num(0)

    def __init__(self, *a):
        self.s = None

    @classmethod
    def utcnow(cls):
        x = cls()
        x.s = cls.now
        return x

    def __sub__(self, other):
        return _Diff(self.s)


class _Mod:
    datetime = _DT


IU.datetime = _Mod
IDENT = ["a", "b", "host.example"]


def _parse(b):
    parts = b.decode("utf-8").split(";")
    return parts


def _generate(kind, ident, prev_ident):
    """-> bytes of the generated Session-Id"""
    if kind == "avp":
        return SessionIdAVP(ident).data
    if kind == "acct":
        return AcctMultiSessionIdAVP(ident).data
    if kind == "update":
        m = DiameterMessage()
        m.append(SessionIdAVP((prev_ident + ";1;1;bromelia").encode()))
        m.append(OriginHostAVP(prev_ident))
        m.update_avps({"origin_host": ident})
        return m.session_id_avp.data
    if kind == "typed":
        from bromelia.messages import STR
        m = STR(session_id=ident, origin_host=ident, origin_realm="r", destination_realm="d",
                auth_application_id=bytes.fromhex("01000023"), termination_cause=bytes.fromhex("00000001"))
        return m.session_id_avp.data
    raise KeyError(kind)


import re as _re
_TOK = _re.compile(r"<N(\d+)>")


def _witness(data, ident):
    """-> (high, low) found in `data` = identity;high;low[;optional], or None if the form is violated.
    high/low must be plain decimal renderings (tokens with an empty format spec) of numbers."""
    parts = data.decode("utf-8").split(";")
    if len(parts) < 3 or parts[0] != ident:
        return None
    out = []
    for field in parts[1:3]:
        m = _TOK.fullmatch(field)
        if m:
            v, spec = Num.table[int(m.group(1))]
            if spec != "":
                return None
            out.append(v)
        elif field.isdigit() and str(int(field)) == field:
            out.append(int(field))
        else:
            return None
    return out[0], out[1]


def step(init0: int, id0: int, now: int, who: int, prev: int) -> bool:
    """
    pre: 0 <= init0 <= now < 2**32 and P.get("idlo", 0) <= id0 < P.get("idhi", 2**32 - 1)
    pre: 0 <= who <= 2 and 0 <= prev <= 2
    post: _
    """
    Num.table = []
    Num.vals = []
    SessionHandler.init = Num(init0)
    SessionHandler.id = Num(id0)
    _DT.now = Num(now)
    ident, prev_ident = IDENT[who], IDENT[prev]
    data = _generate(P["kind"], ident, prev_ident)
    reached()
    if REPLAY: note(pre=(init0, id0, now), identity=ident, previous=prev_ident, session_id=data.decode())
    w = _witness(data, ident)
    if w is None:
        return False
    high, low = w
    form = 0 <= high < 2 ** 32 and (0 <= low < 2 ** 32 or P.get("idlo", 0) >= 2 ** 32 - 1)
    fresh = high > init0 or (high == init0 and low > id0)
    init1, id1 = Num.val(SessionHandler.init), Num.val(SessionHandler.id)
    inv = (high < init1) or (high == init1 and low <= id1)
    mono = init1 > init0 or (init1 == init0 and id1 >= id0)
    return form and fresh and inv and mono


def sequence(init0: int, id0: int, now: int, who: List[int], prevs: List[int]) -> bool:
    """
    pre: 0 <= init0 <= now < 2**32 and 0 <= id0 < 2**32 - 8
    pre: len(who) == len(P["kinds"]) and all(0 <= w <= 1 for w in who)
    pre: len(prevs) == len(P["kinds"]) and all(0 <= w <= 1 for w in prevs)
    post: _
    """
    # several generations within the same (symbolic) clock second, identities switching arbitrarily
    Num.table = []
    Num.vals = []
    SessionHandler.init = Num(init0)
    SessionHandler.id = Num(id0)
    _DT.now = Num(now)
    out, raw = [], []
    for kind, w, pw in zip(P["kinds"], who, prevs):
        ident = IDENT[w]
        prev = IDENT[pw]       # identity of the Session-Id the message carried before (update kind only)
        data = _generate(kind, ident, prev)
        raw.append(data)
        wit = _witness(data, ident)
        if wit is None:
            reached()
            return False
        out.append((ident, wit[0], wit[1]))
    reached()
    if REPLAY: note(pre=(init0, id0, now), ids=[x.decode() for x in raw])
    n = len(out)
    return all(out[i] != out[j] for i in range(n) for j in range(i + 1, n))


def carried(b: bytes) -> bool:
    """
    pre: len(b) == P["L"]
    post: _
    """
    SessionHandler.init, SessionHandler.id = Num(5), Num(7)
    cls = SessionIdAVP if P["cls"] == "SessionIdAVP" else AcctMultiSessionIdAVP
    a = cls(b)
    reached()
    return a.data == b and Num.val(SessionHandler.init) == 5 and Num.val(SessionHandler.id) == 7


def queries(tier, seed):
    t = 90 if tier == "quick" else 600
    qs = []
    for kind in ("avp", "acct", "update", "typed"):
        qs.append(Q(f"step/{kind}", "step", {"kind": kind}, cto=t, pto=t,
                    what=f"inductive step over all 32-bit (init, id, now); identity and previous identity by symbolic choice; kind {kind}"))
    for kind in (("avp", "update") if tier == "quick" else ("avp", "acct", "update", "typed")):
        qs.append(Q(f"step_big/{kind}", "step", {"kind": kind, "idlo": 2 ** 32 - 1, "idhi": 2 ** 40}, cto=t, pto=t,
                    what=f"same step with the counter already beyond 32 bits (2^32-1 <= id < 2^40): uniqueness only, the 32-bit "
                         f"form of the low field is not asserted there; kind {kind}"))
    seqs = [["update", "update"], ["avp", "update", "avp"]] if tier == "quick" else \
        [["update", "update"], ["avp", "update", "avp"], ["update", "avp", "update", "acct"], ["typed", "update", "update"],
         ["acct", "acct", "update", "avp"]]
    for kinds in seqs:
        qs.append(Q(f"sequence/{'-'.join(kinds)}", "sequence", {"kinds": kinds}, cto=t, pto=t,
                    what=f"{len(kinds)} generations {kinds} in one clock second, identities by symbolic choice"))
    for cls in ("SessionIdAVP", "AcctMultiSessionIdAVP"):
        for L in ([0, 1, 5] if tier == "quick" else [0, 1, 2, 3, 4, 5, 6, 9]):
            qs.append(Q(f"carried/{cls}/L{L}", "carried", {"cls": cls, "L": L}, cto=t, pto=t,
                        what=f"{cls}(bytes of length {L}) carried unchanged, counter untouched"))
    return qs


BOUNDS = ["(init, id, now): all 32-bit values with init <= now; identities from a 3-element alphabet by symbolic choice",
          "sequences of 2-4 generations within one clock second"]
OUTSIDE = ["identity strings containing ';' (ambiguous by construction)", "clock going backwards", "the 32-bit width of the low field once "
           "the counter passed 2^32 generations (uniqueness is still checked up to 2^40)"]
ASSUMPTIONS = ["datetime.utcnow stub: arbitrary non-decreasing instants", "decimal rendering of the counters is opaque (class Num: str()/format() yield a token that records value and format spec); Python's str(int) is trusted to be canonical and injective", "ghost invariant: all issued (high, low) pairs are <= (init, id) lexicographically"]
