"""C17 - result-code class predicates agree with the numeric family for every code.

E2 (primary): the predicates' source is translated to SMT-LIB on every run (vf.ast2smt) and each
obligation is discharged as `unsat` of its negation by z3 AND cvc5 - the integer predicates for
every n in Int (unbounded), the answer-object predicates for every 4-byte Result-Code word.
E1 (second): the same obligations through the real objects (DiameterMessage + ResultCodeAVP) with
CrossHair, covering the glue (has_avp, attribute lookup, data width) that E2 stubs.
"""
from vf.driver import Q
from vf.h import REPLAY, P, reached, note
from vf import ast2smt as A

import bromelia.utils as U
from bromelia.avps import ResultCodeAVP, ExperimentalResultAVP, ExperimentalResultCodeAVP, VendorIdAVP
from bromelia.base import DiameterMessage, DiameterHeader, DiameterAnswer

PROPERTY = "C17"
LEVEL = "proof"
CHECKER_CMD = "bin/check C17  (vf/ast2smt.py -> .venv/bin/z3 -smt2 and cvc5 --incremental; CrossHair for the object glue)"
TRUSTED = ["z3 5.1.0 CLI (z3-solver wheel in /verif/.venv)", "cvc5 1.0 binary", "vf/ast2smt.py translator (validated on every run against the "
           "real functions on all library result-code constants and boundary values)",
           "bit-decomposition lemma P1 (x & m as div/mod sum)", "CrossHair 0.0.110 + z3 5.1 for the E1 queries",
           "stub in E2 object obligations: answer.has_avp('result_code_avp') == True and "
           "answer.result_code_avp.data is the 4-byte big-endian word of n"]

INT_PREDS = {k: f"is_result_code_family_{k}xxx" for k in range(1, 6)}
OBJ_PREDS = {1: "is_1xxx_informational", 2: "is_2xxx_success", 3: "is_3xxx_failure",
             4: "is_4xxx_failure", 5: "is_5xxx_failure"}


def _constants():
    import bromelia.constants.result_codes as RC
    import bromelia.constants.experimental_result_codes as ERC
    vals = set()
    for m in (RC, ERC):
        for name in dir(m):
            v = getattr(m, name)
            if isinstance(v, bytes) and len(v) == 4 and name.startswith("DIAMETER_"):
                vals.add(int.from_bytes(v, "big"))
    vals.update([0, 1, 999, 1000, 1001, 1999, 2000, 2001, 2999, 3000, 3001, 3008, 3072, 3999, 4000, 4001, 4999,
                 5000, 5001, 5012, 5999, 6000, 6001, 65535, 65536, 2 ** 31, 2 ** 32 - 1])
    return sorted(vals)


def _int_paths(k):
    fn = getattr(U, INT_PREDS[k])
    it = A.Interp(fn)
    n = A.Sym("n", "Int")
    return it.run({"result_code": n}), it.encoded, ["(declare-const n Int)"]


def _obj_paths(k):
    fn = getattr(U, OBJ_PREDS[k])
    it = A.Interp(fn)
    bs = [A.Sym(f"b{i}", "Int", 0, 255) for i in range(4)]
    answer = A.Obj(has_avp=lambda key: key == "result_code_avp",
                   result_code_avp=A.Obj(data=A.Bytes4(bs)),
                   header=A.Obj(is_error=lambda: A.Sym("ebit", "Bool"), is_request=lambda: False,
                                is_proxiable=lambda: A.Sym("pbit", "Bool")))
    decls = [f"(declare-const b{i} Int)" for i in range(4)] + [f"(assert (and (<= 0 b{i}) (<= b{i} 255)))" for i in range(4)]
    decls += ["(declare-const ebit Bool)", "(declare-const pbit Bool)"]
    decls += ["(define-fun n () Int (+ (* b0 16777216) (* b1 65536) (* b2 256) b3))"]
    return it.run({"answer": answer}), it.encoded, decls


def _ret(p):
    """SMT Bool term for bool(return value) of a path (None -> false)."""
    if p.kind != "return":
        return None
    v = p.value
    if v is None:
        return "false"
    v = A.as_bool(v)
    return A.smt(v)


def _prove(kind, k):
    paths, encoded, decls = (_int_paths if kind == "int" else _obj_paths)(k)
    name = (INT_PREDS if kind == "int" else OBJ_PREDS)[k]
    fn = getattr(U, name)
    expected = f"(= (div n 1000) {k})"
    pre = "(not (= (mod n 1000) 0))"
    queries, labels = [], []
    for i, p in enumerate(paths):
        pc = list(p.pc)
        if p.kind == "raise":
            queries.append(pc + [pre])
            labels.append(f"path {i} raises {p.value}: unreachable for codes that are not multiples of 1000")
        else:
            queries.append(pc + [pre, f"(not (= {_ret(p)} {expected}))"])
            labels.append(f"path {i}: n%1000!=0 -> ({name} <-> n div 1000 = {k})")
    # the path conditions cover every input (no input is silently dropped by the translation)
    queries.append([f"(not (or {' '.join('(and true ' + ' '.join(p.pc) + ')' for p in paths)}))"])
    labels.append("path conditions are exhaustive")
    # translator validation: real function == formula on the library's constants and boundaries
    vq, vl = [], []
    for c in _constants():
        real = bool(_call_real(kind, fn, c))
        for i, p in enumerate(paths):
            fix = [f"(= n {c})"] + (["(not ebit)", "(not pbit)"] if kind == "obj" else [])
            if p.kind == "return":
                vq.append(list(p.pc) + fix + [f"(not (= {_ret(p)} {'true' if real else 'false'}))"])
            else:
                vq.append(list(p.pc) + fix)
    verdicts, stats, raw = A.decide(decls, queries + vq)
    main_v, val_v = verdicts[:len(queries)], verdicts[len(queries):]
    res = {"obligation": f"forall n{' in Int' if kind == 'int' else ' in [0,2^32)'}: n%1000!=0 -> "
                         f"({name}(n) <-> n//1000=={k}); paths={len(paths)}",
           "functions": encoded, "obligations": len(queries), "solver": stats,
           "validation_queries": len(vq), "paths": len(paths)}
    if any(v != "unsat" for v in val_v):
        res["verdict"] = "harness-error"
        res["detail"] = f"translator validation failed/unknown on {sum(v != 'unsat' for v in val_v)} concrete inputs"
        return res
    res["discharged"] = sum(v == "unsat" for v in main_v)
    bad = [i for i, v in enumerate(main_v) if v == "sat"]
    if bad:
        m = A.model(decls, queries[bad[0]], ["n"] + (["ebit", "pbit"] if kind == "obj" else []))
        n = m.get("n") if m else None
        real = _call_real(kind, fn, n, m.get("ebit", False), m.get("pbit", False)) if n is not None else None
        want = (n // 1000 == k) if n is not None else None
        res.update({"verdict": "cex", "detail": f"{labels[bad[0]]} fails for n={n}: {name} returns {real!r}",
                    "call": f"{name}({n}) flags={m}", "reproduced": n is not None and bool(real) != want,
                    "replay": {"verdict": "fails", "n": n, "observed": repr(real), "expected": want}})
        return res
    if all(v == "unsat" for v in main_v):
        res["verdict"] = "proved"
    else:
        res["verdict"] = "inconclusive"
        res["detail"] = f"solver verdicts: {main_v} raw={raw}"
    return res


def _call_real(kind, fn, n, ebit=False, pbit=False):
    if kind == "int":
        return fn(n)
    m = DiameterMessage()
    m.header.flags = (0x20 if ebit else 0) | (0x40 if pbit else 0)
    m.append(ResultCodeAVP(n.to_bytes(4, "big")))
    return fn(m)


def _excl(kind):
    """at most one family predicate holds for any code (including multiples of 1000)"""
    allp = {}
    enc = []
    for k in range(1, 6):
        paths, e, decls = (_int_paths if kind == "int" else _obj_paths)(k)
        allp[k] = paths
        enc += [x for x in e if x not in enc]
    queries = []
    for j in range(1, 6):
        for k in range(j + 1, 6):
            for pj in allp[j]:
                for pk in allp[k]:
                    if pj.kind == "return" and pk.kind == "return":
                        queries.append(list(pj.pc) + list(pk.pc) + [_ret(pj), _ret(pk)])
    verdicts, stats, raw = A.decide(decls, queries)
    res = {"obligation": f"{kind} predicates pairwise exclusive for every code", "functions": enc,
           "obligations": len(queries), "discharged": sum(v == "unsat" for v in verdicts), "solver": stats}
    if all(v == "unsat" for v in verdicts):
        res["verdict"] = "proved"
    elif any(v == "sat" for v in verdicts):
        i = verdicts.index("sat")
        m = A.model(decls, queries[i], ["n"] + (["ebit", "pbit"] if kind == "obj" else []))
        n = m.get("n") if m else None
        fns = [getattr(U, (INT_PREDS if kind == "int" else OBJ_PREDS)[k]) for k in range(1, 6)]
        holds = [bool(_call_real(kind, f, n, m.get("ebit", False), m.get("pbit", False))) for f in fns] if n is not None else []
        res.update({"verdict": "cex", "detail": f"two family predicates hold for n={n}: {holds}", "call": f"n={n}",
                    "reproduced": sum(holds) > 1, "replay": {"verdict": "fails", "n": n, "holds": holds}})
    else:
        res["verdict"] = "inconclusive"
        res["detail"] = str(raw)[:300]
    return res


def _guard(f, *a):
    try:
        return f(*a)
    except A.Unsupported as e:
        return {"verdict": "inconclusive", "detail": f"E2 translator: unsupported construct ({e}); E1 queries still decide this clause"}


def e2_int_1(): return _guard(_prove, "int", 1)
def e2_int_2(): return _guard(_prove, "int", 2)
def e2_int_3(): return _guard(_prove, "int", 3)
def e2_int_4(): return _guard(_prove, "int", 4)
def e2_int_5(): return _guard(_prove, "int", 5)
def e2_obj_1(): return _guard(_prove, "obj", 1)
def e2_obj_2(): return _guard(_prove, "obj", 2)
def e2_obj_3(): return _guard(_prove, "obj", 3)
def e2_obj_4(): return _guard(_prove, "obj", 4)
def e2_obj_5(): return _guard(_prove, "obj", 5)
def e2_excl_int(): return _guard(_excl, "int")
def e2_excl_obj(): return _guard(_excl, "obj")


# ------------------------------------------------------------------ E1: through the real objects
def _fam(n):
    return n // 1000 if n % 1000 != 0 else 0


def obj_pred(n: int, flags: int) -> bool:
    """
    pre: 0 <= n <= 4294967295 and 0 <= flags <= 127
    pre: n % 1000 != 0
    post: _
    """
    k = P["k"]
    m = DiameterAnswer(command_code=316, application_id=16777251) if P.get("typed") else DiameterMessage()
    m.header.flags = flags          # any answer header: E, P, T and reserved bits arbitrary
    m.append(ResultCodeAVP(n))
    r = getattr(U, OBJ_PREDS[k])(m)
    reached()
    if REPLAY: note(n=n, flags=flags, observed=repr(r), expected=(n // 1000 == k))
    return bool(r) == (n // 1000 == k)


def obj_exclusive(n: int, flags: int) -> bool:
    """
    pre: 0 <= n <= 4294967295 and 0 <= flags <= 127
    post: _
    """
    m = DiameterMessage()
    m.header.flags = flags
    m.append(ResultCodeAVP(n))
    hits = 0
    for k in range(1, 6):
        if getattr(U, OBJ_PREDS[k])(m):
            hits += 1
    ints = 0
    for k in range(1, 6):
        if getattr(U, INT_PREDS[k])(n):
            ints += 1
    reached()
    if REPLAY: note(n=n, object_predicates_true=hits, int_predicates_true=ints)
    return hits <= 1 and ints <= 1 and hits == ints


def int_pred(n: int) -> bool:
    """
    pre: n % 1000 != 0
    post: _
    """
    k = P["k"]
    r = getattr(U, INT_PREDS[k])(n)
    reached()
    if REPLAY: note(n=n, observed=repr(r), expected=(n // 1000 == k))
    return r is (n // 1000 == k)


def experimental(n: int, vendor: int) -> bool:
    """
    pre: 0 <= n <= 4294967295 and 0 <= vendor <= 4294967295
    pre: n % 1000 != 0
    post: _
    """
    # experimental codes: read from the Experimental-Result-Code of a decoded-like answer and classified
    # with the integer predicates (the library offers no object predicate for them)
    er = ExperimentalResultAVP([VendorIdAVP(vendor), ExperimentalResultCodeAVP(n)])
    code = int.from_bytes(er.experimental_result_code_avp.data, "big")
    k = P["k"]
    r = getattr(U, INT_PREDS[k])(code)
    reached()
    return r is (n // 1000 == k)


def error_flag(flags: int, n: int) -> bool:
    """
    pre: 0 <= flags <= 255 and 0 <= n <= 4294967295
    post: _
    """
    # is_result_code_error == E bit of the header, whatever the code
    m = DiameterMessage(DiameterHeader(flags=flags))
    m.append(ResultCodeAVP(n))
    r = U.is_result_code_error(m)
    reached()
    return r is ((flags // 32) % 2 == 1)


def queries(tier, seed):
    qs = []
    for k in range(1, 6):
        qs.append(Q(f"e2/int/{k}xxx", f"e2_int_{k}", engine="py", cto=60, what=f"SMT: {INT_PREDS[k]} for all integers"))
        qs.append(Q(f"e2/obj/{k}xxx", f"e2_obj_{k}", engine="py", cto=60, what=f"SMT: {OBJ_PREDS[k]} for all 4-byte words"))
    qs.append(Q("e2/excl/int", "e2_excl_int", engine="py", cto=60, what="SMT: integer predicates pairwise exclusive"))
    qs.append(Q("e2/excl/obj", "e2_excl_obj", engine="py", cto=60, what="SMT: object predicates pairwise exclusive"))
    t = 60 if tier == "quick" else 300
    for k in range(1, 6):
        qs.append(Q(f"e1/obj/{k}xxx", "obj_pred", {"k": k}, cto=t, pto=t, what=f"CrossHair: {OBJ_PREDS[k]} on a real message, all 2^32 codes"))
        qs.append(Q(f"e1/int/{k}xxx", "int_pred", {"k": k}, cto=t, pto=t, what=f"CrossHair: {INT_PREDS[k]}, all integers"))
        qs.append(Q(f"e1/exp/{k}xxx", "experimental", {"k": k}, cto=t, pto=t, what="CrossHair: experimental code read from Experimental-Result"))
    qs.append(Q("e1/obj/typed/3xxx", "obj_pred", {"k": 3, "typed": True}, cto=t, pto=t, what="object predicate on a DiameterAnswer"))
    qs.append(Q("e1/exclusive", "obj_exclusive", {}, cto=t, pto=t, what="CrossHair: at most one predicate per code; object and int agree"))
    qs.append(Q("e1/error_flag", "error_flag", {}, cto=t, pto=t, what="is_result_code_error == E bit"))
    return qs


BOUNDS = ["E2 integer predicates: all n in Int (unbounded)", "E2/E1 object predicates: all 4-byte Result-Code words (0..2^32-1)",
          "E1 integer predicates: all Python ints"]
OUTSIDE = ["multiples of 1000 for the family-equivalence clause (the statement excludes them); they are included in the exclusivity clause",
           "Result-Code AVPs whose data is not 4 bytes (cannot be constructed through ResultCodeAVP)"]
ASSUMPTIONS = ["E2 stub: answer.has_avp('result_code_avp') is True and answer.result_code_avp.data is the big-endian word of n "
               "(the E1 queries run the real has_avp/attribute glue)", "Python int == SMT Int; // and % by positive constants == SMT div/mod"]
