"""C18 - TBCD digit encoding round-trips for every digit string.

Encoded (real code, /repo): bromelia.utils.encode_to_tbcd / decode_from_tbcd and helpers,
MsisdnAVP.encode/decode/__init__, StnSrAVP.encode/decode/__init__.
Symbolic: every digit of the string (all 10^L strings of a length at once); L is a grid parameter.
Oracle: reference TBCD written from 3GPP TS 29.002 (swap nibbles pairwise, 'f' filler iff odd).
"""
from typing import List

from vf.driver import Q
from vf.h import REPLAY, P, reached, note, lib_errors

from bromelia.utils import encode_to_tbcd, decode_from_tbcd
from bromelia.avps import MsisdnAVP, StnSrAVP

PROPERTY = "C18"
LEVEL = "model_checking"
LIB = lib_errors()


def ref_tbcd(s):
    out = ""
    i = 0
    while i + 1 < len(s):
        out += s[i + 1] + s[i]
        i += 2
    if i < len(s):
        out += "f" + s[i]
    return out


def _digits(d):
    return "".join(chr(48 + x) for x in d)


def enc_str(d: List[int]) -> bool:
    """
    pre: len(d) == P["L"]
    pre: all(0 <= x <= 9 for x in d)
    post: _
    """
    s = _digits(d)
    out = encode_to_tbcd(s)
    reached()
    exp = ref_tbcd(s)
    if REPLAY: note(input=s, observed=out, expected=exp)
    return out == exp and (("f" in out) == (len(s) % 2 == 1))


def dec_ref(d: List[int]) -> bool:
    """
    pre: len(d) == P["L"]
    pre: all(0 <= x <= 9 for x in d)
    post: _
    """
    s = _digits(d)
    out = decode_from_tbcd(ref_tbcd(s))
    reached()
    if REPLAY: note(input=ref_tbcd(s), observed=out, expected=s)
    return out == s


def roundtrip(d: List[int]) -> bool:
    """
    pre: len(d) == P["L"]
    pre: all(0 <= x <= 9 for x in d)
    post: _
    """
    s = _digits(d)
    e = encode_to_tbcd(s)
    back = decode_from_tbcd(e) if e is not None else None
    reached()
    if REPLAY: note(input=s, encoded=e, decoded=back)
    return back == s


def avp_int(d: List[int]) -> bool:
    """
    pre: len(d) == P["L"]
    pre: all(0 <= x <= 9 for x in d) and d[0] != 0
    post: _
    """
    n = 0
    for x in d:
        n = n * 10 + x
    s = _digits(d)
    cls = MsisdnAVP if P["cls"] == "MsisdnAVP" else StnSrAVP
    kind = P["kind"]
    arg = n if kind == "int" else s
    avp = cls(arg)
    reached()
    exp = bytes.fromhex(ref_tbcd(s))
    if REPLAY: note(input=repr(arg), observed=avp.data.hex() if avp.data is not None else None, expected=exp.hex())
    hexed = avp.data.hex()
    return (avp.data == exp and decode_from_tbcd(hexed) == s and avp.get_length() == 12 + len(exp)
            and len(avp.dump()) % 4 == 0)


def avp_long(d: List[int]) -> bool:
    """
    pre: len(d) == len(P["pos"]) and all(0 <= x <= 9 for x in d)
    pre: P["pos"][0] != 0 or d[0] != 0
    post: _
    """
    # long numbers (up to 20 digits): the digits at the grid positions are symbolic, the others concrete
    base = list(P["base"])
    for p_, x in zip(P["pos"], d):
        base[p_] = x
    s = _digits(base)
    n = 0
    for x in base:
        n = n * 10 + x
    cls = MsisdnAVP if P["cls"] == "MsisdnAVP" else StnSrAVP
    avp = cls(n if P["kind"] == "int" else s)
    reached()
    exp = bytes.fromhex(ref_tbcd(s))
    if REPLAY: note(input=s, observed=avp.data.hex(), expected=exp.hex())
    return avp.data == exp and decode_from_tbcd(avp.data.hex()) == s


def queries(tier, seed):
    qs = []
    lens = [1, 2, 3, 4, 5, 6, 7, 8] if tier == "quick" else list(range(1, 17))
    for L in lens:
        cto = 60 if tier == "quick" else 600
        for fn in ("enc_str", "dec_ref", "roundtrip"):
            qs.append(Q(f"{fn}/L{L}", fn, {"L": L}, cto=cto, pto=cto,
                        what=f"{fn}: all 10^{L} digit strings of length {L}"))
    ilens = [1, 2, 3, 4] if tier == "quick" else [1, 2, 3, 4, 5, 6, 7, 8, 12, 13, 15, 16]
    for cls in ("MsisdnAVP", "StnSrAVP"):
        for kind in ("int", "str"):
            for L in ilens:
                cto = 60 if tier == "quick" else 600
                qs.append(Q(f"avp/{cls}/{kind}/L{L}", "avp_int", {"L": L, "cls": cls, "kind": kind}, cto=cto, pto=cto,
                            what=f"{cls}({kind}) for all {L}-digit numbers without leading zero"))
    longs = [(13, [12]), (15, [0, 14]), (16, [15]), (17, [16]), (20, [19])] if tier == "quick" else \
        [(L, pos) for L in (12, 13, 14, 15, 16, 17, 18, 19, 20) for pos in ([L - 1], [0, L - 1], [L // 2, L - 2])]
    for L, pos in longs:
        base = [(7 * i + 9) % 10 for i in range(L)]
        base[0] = 9
        for cls in ("MsisdnAVP", "StnSrAVP"):
            for kind in ("int", "str"):
                qs.append(Q(f"avp_long/{cls}/{kind}/L{L}/p{'_'.join(map(str, pos))}", "avp_long",
                            {"cls": cls, "kind": kind, "base": base, "pos": pos}, cto=cto, pto=cto,
                            what=f"{cls}({kind}) for {L}-digit numbers, digits at {pos} symbolic"))
    return qs


BOUNDS = ["digit strings of concrete length L per query, every digit symbolic (all 10^L strings per query)",
          "quick: L in 1..8 (functions), 1..4 (AVP constructors); thorough: L in 1..16", "long numbers (12..20 digits): 1-2 symbolic digits per query at grid positions, the rest concrete"]
OUTSIDE = ["L > 16", "the special symbols * # a b c (the property speaks of digit strings)",
           "numbers with leading zeros through the int path (not representable as int)"]
ASSUMPTIONS = ["reference TBCD oracle (ref_tbcd) transcribes the 3GPP nibble-swapped form",
               "CrossHair's symbolic str/int models (validated per counterexample by native replay)"]
