"""C19 - a configuration is reflected faithfully or rejected, never silently altered.

Encoded (real code): _convert_config_to_connection_obj, Config.__init__, Diameter.make_config / __init__ (up to the
Connection tuple), _convert_file_to_config.
One key (or key group) is symbolic per query, the other keys hold concrete valid values; the key insertion order is a
grid parameter (identity, reversed, rotations, adjacent transpositions).
Oracle: independent validator written from the statement (mode/transport vocab, strict dotted quad, int timeout);
"accepted with every field equal to the input" iff the validator accepts, otherwise InvalidConfigKey/InvalidConfigValue.
YAML half: yaml.load/open/os.path.exists are stubbed to return a symbolic spec document.
"""
import types
from typing import List

from vf.driver import Q
from vf.h import REPLAY, P, reached, note, lib_errors

from bromelia import _internal_utils as IU
from bromelia._internal_utils import _convert_config_to_connection_obj, _convert_file_to_config
from bromelia.exceptions import InvalidConfigKey, InvalidConfigValue

PROPERTY = "C19"
LEVEL = "model_checking"
LIB = lib_errors()

KEYS = ["MODE", "TRANSPORT_TYPE", "APPLICATIONS", "LOCAL_NODE_HOSTNAME", "LOCAL_NODE_REALM", "LOCAL_NODE_IP_ADDRESS",
        "LOCAL_NODE_PORT", "PEER_NODE_HOSTNAME", "PEER_NODE_REALM", "PEER_NODE_IP_ADDRESS", "PEER_NODE_PORT", "WATCHDOG_TIMEOUT"]
APP = [{"vendor_id": b"\x00\x00\x28\xaf", "app_id": b"\x01\x00\x00\x23"}]


def _base():
    return {"MODE": "CLIENT", "TRANSPORT_TYPE": "TCP", "APPLICATIONS": [dict(APP[0])], "LOCAL_NODE_HOSTNAME": "local.host",
            "LOCAL_NODE_REALM": "local.realm", "LOCAL_NODE_IP_ADDRESS": "10.1.2.3", "LOCAL_NODE_PORT": 3868,
            "PEER_NODE_HOSTNAME": "peer.host", "PEER_NODE_REALM": "peer.realm", "PEER_NODE_IP_ADDRESS": "192.168.0.254",
            "PEER_NODE_PORT": 3869, "WATCHDOG_TIMEOUT": 30}


def _order():
    return P.get("order") or list(KEYS)


def valid_ip(s):
    """strict dotted quad: four fields of 1-3 ASCII digits, value <= 255, no leading zeros, nothing else"""
    if not isinstance(s, str):
        return False
    parts = s.split(".")
    if len(parts) != 4:
        return False
    for p in parts:
        if not (1 <= len(p) <= 3):
            return False
        for ch in p:
            if ch not in "0123456789":
                return False
        if len(p) > 1 and p[0] == "0":
            return False
        if int(p) > 255:
            return False
    return True


def _structural_copy(v):
    """fresh containers, shared (immutable) leaves: what the library does to the caller's lists/dicts in place must not also
    change the expectation it is compared with"""
    if isinstance(v, list):
        return [_structural_copy(x) for x in v]
    if isinstance(v, dict):
        return {k: _structural_copy(x) for k, x in v.items()}
    return v


def _check(cfg_values, expect_valid):
    """build the dict in the grid's key order, run the converter, compare with the expectation"""
    cfg = {}
    for k in _order():
        cfg[k] = _structural_copy(cfg_values[k])
    extra = P.get("extra_key")
    if extra:
        cfg[extra] = 1
        expect_valid = False
    try:
        if P.get("via") == "diameter":
            from bromelia.setup import Diameter
            d = Diameter(config=cfg)
            conn = d._connection
        else:
            conn = _convert_config_to_connection_obj(cfg)
    except (InvalidConfigKey, InvalidConfigValue):
        reached()
        return not expect_valid
    reached()
    if not expect_valid:
        return False
    v = cfg_values
    return (conn.name == "bromelia" and conn.mode == v["MODE"] and conn.transport_type == v["TRANSPORT_TYPE"]
            and conn.application_ids == v["APPLICATIONS"]
            and conn.local_node.host_name == v["LOCAL_NODE_HOSTNAME"] and conn.local_node.realm == v["LOCAL_NODE_REALM"]
            and conn.local_node.ip_address == v["LOCAL_NODE_IP_ADDRESS"] and conn.local_node.port == v["LOCAL_NODE_PORT"]
            and conn.peer_node.host_name == v["PEER_NODE_HOSTNAME"] and conn.peer_node.realm == v["PEER_NODE_REALM"]
            and conn.peer_node.ip_address == v["PEER_NODE_IP_ADDRESS"] and conn.peer_node.port == v["PEER_NODE_PORT"]
            and conn.watchdog_timeout == v["WATCHDOG_TIMEOUT"])


def mode_transport(mode: str, tr: str) -> bool:
    """
    pre: len(mode) <= 6 and len(tr) <= 4
    post: _
    """
    v = _base()
    v["MODE"], v["TRANSPORT_TYPE"] = mode, tr
    ok = (mode == "CLIENT" or mode == "SERVER") and (tr == "TCP" or tr == "SCTP")
    if P.get("via") == "diameter" and tr == "":
        return True         # Config() documents the empty transport as "use the default"
    return _check(v, ok)


def ip_digits(d: List[int]) -> bool:
    """
    pre: len(d) == sum(P["widths"]) and all(0 <= x <= 9 for x in d)
    post: _
    """
    # dotted quad from a digit template: every digit symbolic, including leading zeros and values above 255
    parts, i = [], 0
    for w in P["widths"]:
        parts.append("".join(chr(48 + x) for x in d[i:i + w]))
        i += w
    s = ".".join(parts)
    v = _base()
    v[P["key"]] = s
    return _check(v, valid_ip(s))


def ip_char(c: str) -> bool:
    """
    pre: len(c) == 1 and P["lo"] <= ord(c) < P["hi"]
    post: _
    """
    # one arbitrary character inserted at a grid position of a valid stem (also appended: newline, space, digit ...)
    stem = P["stem"]
    pos = P["pos"]
    s = stem[:pos] + c + stem[pos:]
    v = _base()
    v[P["key"]] = s
    return _check(v, valid_ip(s))


def ip_shape() -> dict:
    """concrete malformed shapes (native enumeration): wrong field counts, empty fields, spaces, signs, hex, non-ASCII digits"""
    bad_shapes = ["1.2.3", "1.2.3.4.5", "1..2.3", ".1.2.3", "1.2.3.", " 1.2.3.4", "1.2.3.4 ", "1.2.3.4\n", "01.2.3.4", "1.2.3.04", "256.1.1.1",
                  "1.2.3.256", "1.2.3.-4", "+1.2.3.4", "0x1.2.3.4", "1,2,3,4", "", "a.b.c.d", "١٠.0.0.1", "1.2.3.4/24", "999.999.999.999",
                  "1.2.3.0004", "127.1", "1.2.3.4.", "1.2. 3.4"]
    good = ["0.0.0.0", "255.255.255.255", "1.2.3.4", "10.0.0.1", "192.168.100.200", "100.99.9.0"]
    problems = []
    for key in ("LOCAL_NODE_IP_ADDRESS", "PEER_NODE_IP_ADDRESS"):
        for s in bad_shapes + good:
            v = _base()
            v[key] = s
            try:
                conn = _convert_config_to_connection_obj(dict(v))
                got = conn.local_node.ip_address if key.startswith("LOCAL") else conn.peer_node.ip_address
                if s in bad_shapes:
                    problems.append(f"{key}={s!r} silently accepted")
                elif got != s:
                    problems.append(f"{key}={s!r} altered to {got!r}")
            except (InvalidConfigKey, InvalidConfigValue):
                if s in good:
                    problems.append(f"{key}={s!r} rejected")
            except BaseException as e:      # noqa
                problems.append(f"{key}={s!r} -> {type(e).__name__}")
    if problems:
        return {"verdict": "cex", "detail": "; ".join(problems[:6]), "call": str(problems[:6]), "reproduced": True,
                "replay": {"verdict": "fails", "problems": problems}}
    return {"verdict": "proved", "obligation": f"{len(bad_shapes)} malformed + {len(good)} valid literals x 2 keys (enumeration)"}


def watchdog(n: int) -> bool:
    """
    pre: True
    post: _
    """
    kind = P["kind"]
    v = _base()
    v["WATCHDOG_TIMEOUT"] = {"int": n, "str": str(n) if False else "30", "none": None, "float": 1.5, "bytes": b"\x00\x1e", "list": [30],
                             "emptystr": "", "zerofloat": 0.0, "emptylist": [], "emptybytes": b"", "emptydict": {}}[kind]
    return _check(v, kind == "int")


def verbatim(host: str, realm: str, port: int, phost: str, pport: int) -> bool:
    """
    pre: len(host) <= 3 and len(realm) <= 3 and len(phost) <= 2
    post: _
    """
    v = _base()
    v["LOCAL_NODE_HOSTNAME"], v["LOCAL_NODE_REALM"], v["LOCAL_NODE_PORT"] = host, realm, port
    v["PEER_NODE_HOSTNAME"], v["PEER_NODE_PORT"] = phost, pport
    return _check(v, True)


def applications(blob: bytes) -> bool:
    """
    pre: len(blob) == 16
    post: _
    """
    n, bad = P["n"], P["bad"]
    if bad:
        blob = bytes(range(16))     # the rejection message formats the whole value: keep it concrete on that path
    # 0..2 application dicts with symbolic byte values; `bad` makes one value a non-bytes object (must be rejected)
    apps = []
    for i in range(n):
        apps.append({"vendor_id": blob[8 * i:8 * i + 4], "app_id": blob[8 * i + 4:8 * i + 8]})
    expect = True
    if bad and n:
        apps[n - 1]["app_id" if bad == 1 else "vendor_id"] = 16777251
        expect = False
    v = _base()
    v["APPLICATIONS"] = apps
    return _check(v, expect)


# ------------------------------------------------------------------ YAML spec half
NAMES = {"VENDOR_ID_3GPP": b"\x00\x00\x28\xaf", "DIAMETER_APPLICATION_S6a": b"\x01\x00\x00\x23", "DIAMETER_APPLICATION_Rx": b"\x01\x00\x00\x14"}
MODES = ["client", "Client", "SERVER"]
TRANSPORTS = ["tcp", "sctp", "Sctp"]


class _File:
    def __enter__(self):
        return self

    def __exit__(self, *a):
        return False


def yaml_spec(modes: List[int], has_tr: List[bool], trs: List[int]) -> bool:
    """
    pre: len(modes) == P["nm"] and len(has_tr) == P["n"] and len(trs) == P["n"]
    pre: all(0 <= m < 3 for m in modes) and all(0 <= t < 3 for t in trs)
    post: _
    """
    n = P["n"]
    modes = list(modes) + [1] * (n - len(modes))      # entries beyond nm use a fixed mode
    apps = [i % 2 for i in range(n)]
    entries = []
    for i in range(n):
        e = {"mode": MODES[modes[i]],
             "applications": [{"vendor_id": "VENDOR_ID_3GPP", "app_id": ["DIAMETER_APPLICATION_S6a", "DIAMETER_APPLICATION_Rx"][apps[i]]}],
             "local": {"hostname": f"l{i}", "realm": f"lr{i}", "ip_address": f"10.0.0.{i + 1}", "port": 3868 + i},
             "peer": {"hostname": f"p{i}", "realm": f"pr{i}", "ip_address": f"10.0.1.{i + 1}", "port": 4868 + i},
             "watchdog_timeout": 30 + i}
        if has_tr[i]:
            e["transport_type"] = TRANSPORTS[trs[i]]
        entries.append(e)
    doc = {"api_version": "v1", "name": "x", "spec": entries}
    IU.yaml = types.SimpleNamespace(load=lambda f, Loader=None: doc, FullLoader=object)
    IU.os = types.SimpleNamespace(path=types.SimpleNamespace(exists=lambda p: True, join=lambda *a: "/".join(a)), getcwd=lambda: "/")
    IU.open = lambda *a, **k: _File()
    try:
        out = _convert_file_to_config("config.yaml", dict(NAMES))
    except LIB:
        reached()
        return False
    reached()
    if len(out) != n:
        return False
    ok = True
    for i in range(n):
        c = out[i]
        want_tr = TRANSPORTS[trs[i]].upper() if has_tr[i] else "TCP"
        ok = ok and c["MODE"] == MODES[modes[i]].upper() and c["TRANSPORT_TYPE"] == want_tr
        ok = ok and c["APPLICATIONS"] == [{"vendor_id": NAMES["VENDOR_ID_3GPP"], "app_id": NAMES[["DIAMETER_APPLICATION_S6a", "DIAMETER_APPLICATION_Rx"][apps[i]]]}]
        ok = ok and c["LOCAL_NODE_HOSTNAME"] == f"l{i}" and c["LOCAL_NODE_REALM"] == f"lr{i}" and c["LOCAL_NODE_IP_ADDRESS"] == f"10.0.0.{i + 1}"
        ok = ok and c["LOCAL_NODE_PORT"] == 3868 + i and c["PEER_NODE_HOSTNAME"] == f"p{i}" and c["PEER_NODE_REALM"] == f"pr{i}"
        ok = ok and c["PEER_NODE_IP_ADDRESS"] == f"10.0.1.{i + 1}" and c["PEER_NODE_PORT"] == 4868 + i and c["WATCHDOG_TIMEOUT"] == 30 + i
        ok = ok and sorted(c) == sorted(KEYS)
        if ok:
            conn = _convert_config_to_connection_obj(dict(c))          # each description passes the first half
            ok = conn.mode == c["MODE"] and conn.transport_type == want_tr
    return ok


def _orders(tier):
    ident = list(KEYS)
    out = {"identity": None, "reversed": ident[::-1]}
    rots = range(1, 12) if tier != "quick" else (5, 9)
    for r in rots:
        out[f"rot{r}"] = ident[r:] + ident[:r]
    tr = range(0, 11) if tier != "quick" else (1, 5)
    for i in tr:
        o = list(ident)
        o[i], o[i + 1] = o[i + 1], o[i]
        out[f"swap{i}"] = o
    return out


def queries(tier, seed):
    t = 120 if tier == "quick" else 900
    qs = []
    orders = _orders(tier)
    for oname, order in orders.items():
        qs.append(Q(f"mode_transport/{oname}", "mode_transport", {"order": order}, cto=t, pto=t,
                    what=f"MODE (any str <= 6 chars) and TRANSPORT_TYPE (any str <= 4 chars), key order {oname}"))
    qs.append(Q("mode_transport/diameter", "mode_transport", {"via": "diameter"}, cto=t, pto=t, what="same through Diameter(config=...)"))
    qs.append(Q("mode_transport/extra_key", "mode_transport", {"extra_key": "LOCAL_NODE_IPADDRESS"}, cto=t, pto=t, what="an unknown extra key is rejected whatever the other values"))
    widths = [[1, 1, 1, 1], [3, 1, 1, 1], [1, 2, 1, 3], [2, 2, 2, 2]] if tier == "quick" else \
        [[a, b, c, d] for a in (1, 2, 3) for b in (1, 3) for c in (1, 2) for d in (1, 2, 3)]
    for w in widths:
        for key in (("LOCAL_NODE_IP_ADDRESS", "PEER_NODE_IP_ADDRESS") if (tier != "quick" or w == [3, 1, 1, 1]) else ("LOCAL_NODE_IP_ADDRESS",)):
            qs.append(Q(f"ip_digits/{key[:5]}/{''.join(map(str, w))}", "ip_digits", {"widths": w, "key": key}, cto=t, pto=t,
                        what=f"{key}: dotted quad with field widths {w}, every digit symbolic (leading zeros, >255 included)"))
    for key in ("LOCAL_NODE_IP_ADDRESS", "PEER_NODE_IP_ADDRESS"):
        qs.append(Q(f"ip_digits/{key[:5]}/3121/diameter", "ip_digits", {"widths": [3, 1, 2, 1], "key": key, "via": "diameter"}, cto=t, pto=t,
                    what=f"{key}: dotted quad with field widths [3, 1, 2, 1] through Diameter(config=...)"))
    for stem in (("10.0.0.1",) if tier == "quick" else ("10.0.0.1", "1.2.3.4", "255.255.255.25")):
        positions = (0, 2, len(stem)) if tier == "quick" else range(len(stem) + 1)
        for ki, key in enumerate(("LOCAL_NODE_IP_ADDRESS", "PEER_NODE_IP_ADDRESS")):
            for pos in positions:
                for lo, hi in ((0, 128), (128, 0x700)):
                    if tier == "quick" and ((pos + ki) % 2 == 1 or (lo and pos != len(stem))):
                        continue
                    qs.append(Q(f"ip_char/{key[:5]}/{stem}/p{pos}/u{lo}", "ip_char", {"stem": stem, "key": key, "pos": pos, "lo": lo, "hi": hi}, cto=t, pto=t,
                                what=f"{key}: any single character U+{lo:04X}..U+{hi - 1:04X} inserted at position {pos} of {stem!r}"))
    qs.append(Q("native/ip_shape", "ip_shape", engine="py", cto=60, what="malformed/valid literal table"))
    for kind in ("int", "str", "none", "float", "bytes", "list", "emptystr", "zerofloat", "emptylist", "emptybytes", "emptydict"):
        for via in ("converter", "diameter"):
            qs.append(Q(f"watchdog/{kind}/{via}", "watchdog", {"kind": kind, "via": via}, cto=t, pto=t,
                        what=f"WATCHDOG_TIMEOUT of kind {kind} (int: every value, 0 and negatives included) through "
                             f"{'Diameter(config=...) / Config.__init__' if via == 'diameter' else '_convert_config_to_connection_obj'}"))
    for oname in (("identity", "reversed") if tier == "quick" else list(orders)):
        qs.append(Q(f"verbatim/{oname}", "verbatim", {"order": orders[oname]}, cto=t, pto=t, what=f"host names, realm, ports reflected verbatim, key order {oname}"))
        if oname == "identity" and tier != "quick":      # (symbolic names through the base-message templates: ~10 min)
            qs.append(Q("verbatim/diameter", "verbatim", {"order": orders[oname], "via": "diameter"}, cto=t, pto=t, what="the same through Diameter(config=...)"))
        if oname == "identity":
            for n_ in (1, 2):
                qs.append(Q(f"applications/diameter/n{n_}", "applications", {"order": orders[oname], "n": n_, "bad": 0, "via": "diameter"}, cto=t, pto=t,
                            what=f"{n_} application(s) with symbolic vendor/app ids through Diameter(config=...): reflected in the configured order"))
        for n_, bad_ in ((0, 0), (1, 0), (2, 0), (2, 1), (1, 2)):
            qs.append(Q(f"applications/{oname}/n{n_}bad{bad_}", "applications", {"order": orders[oname], "n": n_, "bad": bad_}, cto=t, pto=t,
                        what=f"{n_} application dicts with symbolic byte values{', one non-bytes value' if bad_ else ''}, key order {oname}"))
    for n, nm in (((1, 1), (2, 2), (3, 0)) if tier == "quick" else ((1, 1), (2, 2), (3, 1), (3, 0), (4, 0))):
        qs.append(Q(f"yaml/n{n}m{nm}", "yaml_spec", {"n": n, "nm": nm}, cto=t, pto=t,
                    what=f"YAML spec list of {n} entries: transport presence and case variant symbolic for every entry, mode case variant for the first {nm}"))
    return qs


BOUNDS = ["MODE: every str of <= 6 chars; TRANSPORT_TYPE: every str of <= 4 chars", "IPv4: every digit of the templated dotted quads; any single "
          "inserted character at any position of a valid stem; a table of malformed shapes", "WATCHDOG_TIMEOUT: every int, and str/None/float/bytes/list incl. the falsy values of each kind, through the converter and through Diameter(config=...)",
          "key orders: identity, reversed, rotations, adjacent transpositions (quick: 6 orders)", "YAML: 1..2 (quick) / 3 spec entries"]
OUTSIDE = ["incomplete configurations (the statement speaks of complete ones)", "booleans as timeout (Python treats them as int)", "non-str IP values",
           "application dicts carrying only one of vendor_id/app_id", "YAML text parsing (yaml.load is stubbed)", "all 12! key orders"]
ASSUMPTIONS = ["independent validator valid_ip() = strict dotted quad", "yaml.load/open/os.path.exists stubs return the symbolic document"]
