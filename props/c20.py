"""C20 - typed AVP value accessors agree with the wire data for every value.

Bits    E2: Unsigned32Type.is_bit_set/set_bit/unset_bit translated from source, one obligation set per bit
            index (concrete 0..31 and out-of-range samples), the 32-bit word fully symbolic, z3+cvc5.
        E1: the same through real VendorIdAVP / FeatureListAVP-like instances with symbolic (word, bit),
            including symbolic out-of-range indices and "only the addressed bit of dump() changes".
Address E1: literal rendered by the harness from symbolic octets; data == family || packed, accessors agree.
Time    E1: TimeType arithmetic for every (days, seconds) through a datetime subclass whose difference is symbolic.
"""
import datetime
import ipaddress
from typing import List

from vf.driver import Q
from vf.h import REPLAY, P, reached, note, lib_errors
from vf import ast2smt as A

import bromelia.types as T
from bromelia.avps import VendorIdAVP, HostIpAddressAVP, EventTimestampAVP, SupportedFeaturesAVP
from bromelia.avps import FeatureListAVP
from bromelia.exceptions import DiameterTypeError, DataTypeError

PROPERTY = "C20"
LEVEL = "model_checking"
LIB = lib_errors()


# ------------------------------------------------------------------ E2: bit kernels
def _self_obj():
    """self.data = 4 bytes of the big-endian word w; w is *defined* by its 32 binary digits x0..x31
    (w = sum x_i 2^i, x_i in {0,1}; data[0] holds bits 31..24, data[3] bits 7..0), so that
    'bit i of the word' is the variable x_i and everything else is linear integer arithmetic."""
    decls = [f"(declare-const x{i} Int)" for i in range(32)]
    decls += [f"(assert (and (<= 0 x{i}) (<= x{i} 1)))" for i in range(32)]
    decls += ["(define-fun w () Int (+ " + " ".join(f"(* x{i} {2 ** i})" for i in range(32)) + "))"]
    for j in range(4):          # data[j]
        lo = 8 * (3 - j)
        decls += [f"(define-fun b{j} () Int (+ " + " ".join(f"(* x{lo + i} {2 ** i})" for i in range(8)) + "))"]
    bs = [A.Sym(f"b{i}", "Int", 0, 255) for i in range(4)]
    obj = A.Obj(data=A.Bytes4(bs), is_bit_set=T.Unsigned32Type.is_bit_set)
    return obj, decls


def _word(b4):
    return "(+ " + " ".join(f"(* {A.smt(e)} {256 ** (3 - i)})" for i, e in enumerate(b4.elems)) + ")"


def _bits(method):
    """obligations for one method over every concrete bit index; word symbolic"""
    fn = getattr(T.Unsigned32Type, method)
    queries, labels, encoded = [], [], []
    decls = None
    for bit in list(range(32)) + [-1, -8, 32, 33, 64, 255, 2 ** 31]:
        obj, decls = _self_obj()
        it = A.Interp(fn)
        paths = it.run({"self": obj, "bit": bit})
        encoded = it.encoded
        inrange = 0 <= bit <= 31
        isset = f"(= x{bit} 1)" if inrange else None
        for i, p in enumerate(paths):
            pc = list(p.pc)
            lab = f"{method}(bit={bit}) path {i} ({p.kind})"
            if not inrange:
                # every path must raise DiameterTypeError
                if p.kind != "raise" or p.value != "DiameterTypeError":
                    queries.append(pc)        # must be infeasible
                    labels.append(lab + ": out-of-range index must raise DiameterTypeError")
                continue
            if method == "is_bit_set":
                if p.kind == "raise":
                    queries.append(pc)
                    labels.append(lab + ": in-range index never raises")
                else:
                    queries.append(pc + [f"(not (= {A.smt(A.as_bool(p.value))} {isset}))"])
                    labels.append(lab + ": result == bit of big-endian word")
            else:
                want_set = method == "set_bit"
                pre_ok = f"(not {isset})" if want_set else isset      # legal call
                if p.kind == "raise":
                    queries.append(pc + [pre_ok])
                    labels.append(lab + ": raises only for a redundant set/clear")
                    if p.value != "DiameterTypeError":
                        queries.append(pc)
                        labels.append(lab + ": wrong exception type " + str(p.value))
                else:
                    new = p.state["self"].attrs["data"]
                    if not isinstance(new, A.Bytes4) or len(new.elems) != 4 or not isinstance(p.value, A.Bytes4):
                        raise A.Unsupported("set/unset did not produce 4 bytes")
                    delta = 2 ** bit if want_set else -(2 ** bit)
                    queries.append(pc + [f"(not (and {pre_ok} (= {_word(new)} (+ w {A.smt(delta)})) "
                                         f"(= {_word(p.value)} {_word(new)})))"])
                    labels.append(lab + ": legal call, stored and returned word == w +/- 2^bit (only that bit changes)")
        # exhaustiveness of the path conditions
        queries.append([f"(not (or {' '.join('(and true ' + ' '.join(p.pc) + ')' for p in paths)}))"])
        labels.append(f"{method}(bit={bit}) path conditions exhaustive")
    # translator validation on concrete (word, bit) pairs pushed through the real method
    vq = []
    samples = [(0, 0), (1, 0), (0x80, 7), (0x100, 8), (0x8000, 15), (0x10000, 16), (0x800000, 23), (0x1000000, 24),
               (0x80000000, 31), (0xffffffff, 13), (0x12345678, 3), (0x12345678, 4), (0x7fffffff, 31), (0xfffffeff, 8)]
    for wv, bit in samples:
        real = _real_bits(method, wv, bit)
        obj, decls = _self_obj()
        paths = A.Interp(fn).run({"self": obj, "bit": bit})
        fix = f"(= w {wv})"
        for p in paths:
            pc = list(p.pc) + [fix]
            if real[0] == "raise":
                if p.kind != "raise":
                    vq.append(pc)
            else:
                if p.kind == "raise":
                    vq.append(pc)
                elif method == "is_bit_set":
                    vq.append(pc + [f"(not (= {A.smt(A.as_bool(p.value))} {'true' if real[1] else 'false'}))"])
                else:
                    vq.append(pc + [f"(not (= {_word(p.state['self'].attrs['data'])} {real[1]}))"])
    verdicts, stats, raw = A.decide(decls, queries + vq, timeout=300)
    main_v, val_v = verdicts[:len(queries)], verdicts[len(queries):]
    res = {"obligation": f"Unsigned32Type.{method}: for every 32-bit word and every index 0..31 (+7 out-of-range samples)",
           "functions": encoded, "obligations": len(queries), "solver": stats, "validation_queries": len(vq)}
    if any(v != "unsat" for v in val_v):
        res.update(verdict="harness-error", detail=f"translator validation failed on {sum(v != 'unsat' for v in val_v)} cases")
        return res
    res["discharged"] = sum(v == "unsat" for v in main_v)
    bad = [i for i, v in enumerate(main_v) if v == "sat"]
    if bad:
        m = A.model(decls, queries[bad[0]], ["w"]) or {}
        res.update(verdict="cex", detail=f"{labels[bad[0]]} fails for w={m.get('w')}", call=f"w={m.get('w')}; {labels[bad[0]]}")
        bit = int(labels[bad[0]].split("bit=")[1].split(")")[0])
        wv = m.get("w")
        ok = False
        if wv is not None:
            r = _real_bits(method, wv, bit)
            exp = _ref_bits(method, wv, bit)
            ok = r != exp
            res["replay"] = {"verdict": "fails" if ok else "holds", "w": wv, "bit": bit, "observed": r, "expected": exp}
        res["reproduced"] = ok
        return res
    if all(v == "unsat" for v in main_v):
        res["verdict"] = "proved"
    else:
        res.update(verdict="inconclusive", detail=str(raw)[:300])
    return res


def _real_bits(method, wv, bit):
    a = VendorIdAVP(wv)
    try:
        r = getattr(a, method)(bit)
    except DiameterTypeError:
        return ("raise", "DiameterTypeError")
    except Exception as e:
        __import__('vf.h').h.reraise_if_harness(e)
        return ("raise", type(e).__name__)
    if method == "is_bit_set":
        return ("ret", bool(r))
    return ("ret", int.from_bytes(a.data, "big"))


def _ref_bits(method, wv, bit):
    if not (0 <= bit <= 31):
        return ("raise", "DiameterTypeError")
    s = (wv >> bit) & 1
    if method == "is_bit_set":
        return ("ret", bool(s))
    if method == "set_bit":
        return ("raise", "DiameterTypeError") if s else ("ret", wv | (1 << bit))
    return ("raise", "DiameterTypeError") if not s else ("ret", wv & ~(1 << bit))


def _guard(method):
    try:
        return _bits(method)
    except A.Unsupported as e:
        return {"verdict": "inconclusive", "detail": f"E2 translator: unsupported construct ({e}); the E1 queries still decide this clause"}


def e2_is_bit_set(): return _guard("is_bit_set")
def e2_set_bit(): return _guard("set_bit")
def e2_unset_bit(): return _guard("unset_bit")


# ------------------------------------------------------------------ E1: bits through real AVP instances
def _mk(w):
    return FeatureListAVP(w) if P.get("cls") == "FeatureListAVP" else VendorIdAVP(w)


def bit_test(w: int, bit: int) -> bool:
    """
    pre: 0 <= w <= 4294967295
    post: _
    """
    a = _mk(w)
    try:
        r = a.is_bit_set(bit)
    except DiameterTypeError:
        reached()
        return not (0 <= bit <= 31)
    reached()
    if REPLAY: note(w=w, bit=bit, observed=repr(r))
    return 0 <= bit <= 31 and r is ((w // 2 ** bit) % 2 == 1)


def bit_set(w: int, bit: int) -> bool:
    """
    pre: 0 <= w <= 4294967295
    post: _
    """
    a = _mk(w)
    before = a.dump()
    try:
        r = a.set_bit(bit)
    except DiameterTypeError:
        reached()
        return not (0 <= bit <= 31) or (w // 2 ** bit) % 2 == 1
    reached()
    if not (0 <= bit <= 31) or (w // 2 ** bit) % 2 == 1:
        return False
    after = a.dump()
    exp = w + 2 ** bit
    if REPLAY: note(w=w, bit=bit, observed=after.hex(), expected=exp)
    return (r == a.data and int.from_bytes(a.data, "big") == exp and len(a.data) == 4
            and after[:-4] == before[:-4] and len(after) == len(before))


def bit_unset(w: int, bit: int) -> bool:
    """
    pre: 0 <= w <= 4294967295
    post: _
    """
    a = _mk(w)
    before = a.dump()
    try:
        r = a.unset_bit(bit)
    except DiameterTypeError:
        reached()
        return not (0 <= bit <= 31) or (w // 2 ** bit) % 2 == 0
    reached()
    if not (0 <= bit <= 31) or (w // 2 ** bit) % 2 == 0:
        return False
    after = a.dump()
    exp = w - 2 ** bit
    return (r == a.data and int.from_bytes(a.data, "big") == exp and len(a.data) == 4
            and after[:-4] == before[:-4] and len(after) == len(before))


def bit_set_then_unset(w: int, bit: int) -> bool:
    """
    pre: 0 <= w <= 4294967295 and 0 <= bit <= 31
    pre: (w // 2 ** bit) % 2 == 0
    post: _
    """
    a = _mk(w)
    try:
        a.set_bit(bit)
        mid = a.is_bit_set(bit)
        a.unset_bit(bit)
        end = a.is_bit_set(bit)
    except LIB:
        reached()
        return False        # a legal set/test/clear sequence must not be rejected
    reached()
    return mid is True and end is False and int.from_bytes(a.data, "big") == w


# ------------------------------------------------------------------ E1: Address
def _octets(d, widths, base):
    """digits d (flat list) fill the octets whose width in `widths` is > 0; others come from `base`.
    -> (literal, [octet values])  - canonical dotted decimal (no leading zeros: first digit of a
    multi-digit octet is >= 1, enforced by the caller's precondition)"""
    parts, vals, i = [], [], 0
    for w, b in zip(widths, base):
        if w == 0:
            parts.append(str(b))
            vals.append(b)
        else:
            ds = d[i:i + w]
            i += w
            parts.append("".join(chr(48 + x) for x in ds))
            v = 0
            for x in ds:
                v = v * 10 + x
            vals.append(v)
    return ".".join(parts), vals


def _v4_ok(d, widths):
    i = 0
    for w in widths:
        if w:
            ds = d[i:i + w]
            i += w
            v = 0
            for x in ds:
                v = v * 10 + x
            if (w > 1 and ds[0] == 0) or v > 255:
                return False
    return True


def addr_v4(d: List[int]) -> bool:
    """
    pre: len(d) == sum(P["widths"]) and all(0 <= x <= 9 for x in d)
    pre: _v4_ok(d, P["widths"])
    post: _
    """
    lit, vals = _octets(d, P["widths"], P["base"])
    a = HostIpAddressAVP(lit)
    reached()
    exp = b"\x00\x01" + bytes(vals)
    if REPLAY: note(literal=lit, observed=a.data.hex(), expected=exp.hex())
    return (a.data == exp and a.is_ipv4() is True and a.is_ipv6() is False and a.get_ip_address() == lit
            and a.get_length() == 14 and len(a.dump()) == 16)


def addr_bytes(fam: int, body: bytes) -> bool:
    """
    pre: 0 <= fam <= 65535 and len(body) == P["L"]
    post: _
    """
    data = fam.to_bytes(2, "big") + body
    try:
        a = HostIpAddressAVP(data)
    except LIB:
        reached()
        # rejected: must not be a well-formed IPv4/IPv6 image
        return not ((fam == 1 and len(body) == 4) or (fam == 2 and len(body) == 16))
    reached()
    if fam == 1:
        return len(body) == 4 and a.data == data and a.is_ipv4() is True and a.is_ipv6() is False
    if fam == 2:
        return len(body) == 16 and a.data == data and a.is_ipv6() is True and a.is_ipv4() is False
    return a.data == data


HEX = "0123456789abcdef"


def _v6_groups(n):
    """base groups with the nibbles at P["nib"] (list of [group, nibble-index]) replaced by symbolic n"""
    nibs = [[(g >> s) & 15 for s in (12, 8, 4, 0)] for g in P["base"]]
    for (gi, ni), v in zip(P["nib"], n):
        nibs[gi][ni] = v
    texts = ["".join(HEX[x] for x in g) for g in nibs]
    vals = [g[0] * 4096 + g[1] * 256 + g[2] * 16 + g[3] for g in nibs]
    return texts, vals


def addr_v6(n: List[int]) -> bool:
    """
    pre: len(n) == len(P["nib"]) and all(0 <= x <= 15 for x in n)
    post: _
    """
    texts, vals = _v6_groups(n)
    lit = ":".join(texts)            # full spelling, 4 hex digits per group
    a = HostIpAddressAVP(lit)
    reached()
    exp = b"\x00\x02" + bytes(b for v in vals for b in (v // 256, v % 256))
    if REPLAY: note(literal=lit, observed=a.data.hex(), expected=exp.hex())
    return (a.data == exp and a.is_ipv6() is True and a.is_ipv4() is False and a.get_length() == 26
            and len(a.dump()) == 28)


def addr_v6_compressed(n: List[int]) -> bool:
    """
    pre: len(n) == len(P["nib"]) and all(0 <= x <= 15 for x in n)
    post: _
    """
    # '::' at group P["z"] covering P["n"] groups (which are zero in P["base"]); symbolic nibbles elsewhere
    z, cnt = P["z"], P["n"]
    texts, vals = _v6_groups(n)
    lit = ":".join(texts[:z]) + "::" + ":".join(texts[z + cnt:])
    a = HostIpAddressAVP(lit)
    reached()
    exp = b"\x00\x02" + bytes(b for v in vals for b in (v // 256, v % 256))
    if REPLAY: note(literal=lit, observed=a.data.hex(), expected=exp.hex())
    return a.data == exp and a.is_ipv6() is True and a.get_length() == 26


def addr_v6_text(n: List[int]) -> bool:
    """
    pre: len(n) == len(P["nib"]) and all(0 <= x <= 15 for x in n)
    post: _
    """
    # reported address: canonical (RFC 5952) text must denote the same 16 bytes
    texts, vals = _v6_groups(n)
    a = HostIpAddressAVP(":".join(texts))
    back = a.get_ip_address()
    reached()
    exp = bytes(b for v in vals for b in (v // 256, v % 256))
    return ipaddress.IPv6Address(back).packed == exp


# ------------------------------------------------------------------ E1: Time
class _Delta:
    """timedelta of a whole-second instant as far as a Time encoder may look at it (days / seconds / microseconds fields or
    total_seconds()); sub-second instants are concrete cases of time_boundaries"""

    def __init__(self, days, seconds):
        self.days, self.seconds, self.microseconds = days, seconds, 0

    def total_seconds(self):
        return self.days * 86400 + self.seconds          # exact (an int where CPython returns an integral float)

    def __floordiv__(self, other):
        return (self.days * 86400 + self.seconds) // (other.days * 86400 + other.seconds)


class _Instant(datetime.datetime):
    """datetime whose distance to any reference is the (days, seconds) installed by the harness;
    stdlib datetime.__sub__ itself is trusted and sampled separately (time_boundaries)."""
    delta = None

    def __sub__(self, other):
        return _Instant.delta


def time_arith(days: int, seconds: int) -> bool:
    """
    pre: 0 <= days <= 60000 and 0 <= seconds < 86400
    post: _
    """
    _Instant.delta = _Delta(days, seconds)
    t = _Instant(2000, 1, 1)
    total = days * 86400 + seconds
    try:
        a = EventTimestampAVP(t)
    except Exception:
        reached()
        return total >= 2 ** 32
    reached()
    if REPLAY: note(days=days, seconds=seconds, observed=a.data.hex(), expected=total)
    return total < 2 ** 32 and a.data == total.to_bytes(4, "big") and a.get_length() == 12


def time_bytes(b: bytes) -> bool:
    """
    pre: len(b) == P["L"]
    post: _
    """
    try:
        a = EventTimestampAVP(b)
    except LIB:
        reached()
        return len(b) != 4
    reached()
    return len(b) == 4 and a.data == b


def time_boundaries():
    """stdlib datetime arithmetic sampled at the boundaries (native; not a solver query)"""
    ref = datetime.datetime(1900, 1, 1)
    bad = []
    pts = [ref, ref + datetime.timedelta(seconds=1), datetime.datetime(1970, 1, 1), datetime.datetime(1999, 12, 31, 23, 59, 59),
           datetime.datetime(2000, 2, 29, 12), datetime.datetime(2036, 2, 7, 6, 28, 15), datetime.datetime(2024, 2, 29, 23, 59, 59)]
    # "whole seconds since 1900-01-01": the sub-second part of an instant is dropped, never rounded up
    pts += [p.replace(microsecond=us) for p in (pts[0], pts[2], pts[4], datetime.datetime(2036, 2, 7, 6, 28, 15)) for us in (1, 499999, 500000, 500001, 999999)]
    for t in pts:
        d = t - ref
        exp = d.days * 86400 + d.seconds
        try:
            a = EventTimestampAVP(t)
        except BaseException as e:       # noqa: a representable instant must be encoded
            bad.append(f"{t}: raised {type(e).__name__}")
            continue
        if a.data != exp.to_bytes(4, "big"):
            bad.append(str(t))
    over = datetime.datetime(2036, 2, 7, 6, 28, 16)
    try:
        EventTimestampAVP(over)
        bad.append("2^32 seconds accepted")
    except Exception:
        pass
    if bad:
        return {"verdict": "cex", "detail": f"Time boundaries wrong: {bad}", "call": str(bad), "reproduced": True,
                "replay": {"verdict": "fails", "bad": bad}}
    return {"verdict": "proved", "obligation": f"{len(pts) + 1} boundary instants (enumeration, not solver)", "obligations": 1,
            "discharged": 1}


def queries(tier, seed):
    t = 90 if tier == "quick" else 600
    qs = [Q("e2/is_bit_set", "e2_is_bit_set", engine="py", cto=t, what="SMT: is_bit_set, all words x 32 indices"),
          Q("e2/set_bit", "e2_set_bit", engine="py", cto=t, what="SMT: set_bit"),
          Q("e2/unset_bit", "e2_unset_bit", engine="py", cto=t, what="SMT: unset_bit")]
    for cls in ("VendorIdAVP", "FeatureListAVP"):
        for fn in ("bit_test", "bit_set", "bit_unset", "bit_set_then_unset"):
            qs.append(Q(f"e1/{fn}/{cls}", fn, {"cls": cls}, cto=t, pto=t, what=f"CrossHair: {fn} on {cls}, all (word, index) incl. out-of-range"))
    base4 = [10, 255, 0, 199]
    if tier == "quick":
        w4 = [[3, 0, 0, 0], [0, 2, 0, 0], [0, 0, 1, 0], [0, 0, 0, 3], [1, 1, 1, 1], [0, 3, 0, 0]]
    else:
        w4 = [[w if i == j else 0 for i in range(4)] for j in range(4) for w in (1, 2, 3)] + \
             [[1, 1, 1, 1], [2, 1, 1, 2], [3, 1, 1, 1], [1, 1, 1, 3], [2, 2, 0, 0], [0, 0, 2, 2], [3, 0, 0, 3], [0, 3, 3, 0]]
    for w in w4:
        qs.append(Q(f"e1/addr_v4/{''.join(map(str, w))}", "addr_v4", {"widths": w, "base": base4}, cto=t, pto=t,
                    what=f"IPv4 literal, octet digit widths {w} symbolic (0 = concrete octet)"))
    lens = [0, 1, 3, 4, 5, 16, 17] if tier == "quick" else list(range(0, 19))
    for L in lens:
        qs.append(Q(f"e1/addr_bytes/L{L}", "addr_bytes", {"L": L}, cto=t, pto=t, what=f"bytes input: family symbolic (2^16), body {L} symbolic bytes"))
    base6 = [0x2001, 0xdb8, 0, 1, 0xffff, 0x10, 0xa, 0x8000]
    if tier == "quick":
        nibsets = [[[0, 0]], [[3, 2]], [[7, 3]], [[4, 1], [7, 0]]]
    else:
        nibsets = [[[g, 0], [g, 1]] for g in range(8)] + [[[g, 2], [g, 3]] for g in range(8)] + [[[g, 3], [(g + 1) % 8, 0]] for g in range(8)]
    for ns in nibsets:
        tag = "_".join(f"{g}{i}" for g, i in ns)
        qs.append(Q(f"e1/addr_v6/full/{tag}", "addr_v6", {"base": base6, "nib": ns}, cto=t, pto=t,
                    what=f"IPv6 full form, nibbles {ns} symbolic (256 values, enumerated by realisation)"))
    qs.append(Q("e1/addr_v6/text/70_73", "addr_v6_text", {"base": base6, "nib": [[7, 0], [7, 3]] if tier != "quick" else [[7, 3]]}, cto=t, pto=t,
                what="IPv6: reported text denotes the same bytes"))
    comp = [(1, 1), (3, 2), (6, 1)] if tier == "quick" else [(z, n) for z in range(1, 7) for n in range(1, 8 - z)]
    for z, n in comp:
        basec = [0x2001] + [7] * 6 + [0x99]
        for i in range(z, z + n):
            basec[i] = 0
        qs.append(Q(f"e1/addr_v6/compressed/z{z}n{n}", "addr_v6_compressed", {"z": z, "n": n, "base": basec, "nib": [[0, 3], [7, 2]] if tier != "quick" else [[7, 2]]},
                    cto=t, pto=t, what=f"IPv6 '::' at group {z} covering {n} groups, two symbolic nibbles"))
    qs.append(Q("e1/time_arith", "time_arith", {}, cto=t, pto=t, what="Time: every (days, seconds) incl. overflow beyond 2^32 s"))
    for L in ([0, 3, 4, 5, 8] if tier == "quick" else range(0, 10)):
        qs.append(Q(f"e1/time_bytes/L{L}", "time_bytes", {"L": L}, cto=t, pto=t, what=f"Time from {L} bytes"))
    qs.append(Q("native/time_boundaries", "time_boundaries", engine="py", cto=30, what="stdlib datetime arithmetic sampled at boundaries"))
    return qs


BOUNDS = ["bits: every 32-bit word x every index (E2: 0..31 + 7 out-of-range samples; E1: every Python int index)",
          "IPv4: every octet value, canonical dotted-decimal spelling", "IPv6: 1-2 symbolic 16-bit groups per query (grid over positions), "
          "full spelling and '::' compression grid", "Address bytes input: every 16-bit family x every body of length L in grid",
          "Time: every days in 0..60000 x seconds in 0..86399"]
OUTSIDE = ["IPv4 literals with leading zeros/other spellings (rejected by stdlib)", "IPv6 with more than 2 symbolic groups at once, "
           "embedded IPv4 and zone ids", "stdlib datetime.__sub__ (trusted, sampled at boundaries)", "float / non-int bit indices"]
ASSUMPTIONS = ["datetime subclass stand-in returns the (days, seconds) the harness installs", "E2 object model: self.data is a 4-byte word"]
