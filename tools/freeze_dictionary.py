"""Design-time generator of /verif/ref/avp_dictionary.json, cross-read against docs/list-of-avps.md
(name, code, type, class name) and bromelia/definitions.py (code<->name for vendor 0).
Disagreements between the sources are printed for manual review.  NOT run by the checks."""
import json, re, sys
sys.path[:0] = ["/verif", "/repo"]
import vf.avpgen as G
G._REF = {}
import props.c09  # noqa: imports every bromelia.lib.*.messages module, which registers the remaining AVP modules (ts_132_299)
from bromelia.definitions import diameter_avps
docs = {}
for line in open("/repo/docs/list-of-avps.md"):
    m = re.match(r"\|\d+\|`([^`]+)`\|(\d+)\|(\w+)\|.*\|(\w+)\s*$", line)
    if m:
        docs[m.group(4)] = {"name": m.group(1), "code": int(m.group(2)), "type": m.group(3)}
defs = {d["id"]: d["name"] for d in diameter_avps}
out, problems = {}, []
for c in G.classes():
    code = int.from_bytes(c.code, "big")
    vendor = int.from_bytes(c.vendor_id, "big") if c.vendor_id is not None else None
    inst, _ = G.build(c, G.Leaves())
    row = {"module": c.__module__, "code": code, "vendor": vendor, "type": G.type_of(c), "flags": inst.get_flags()}
    if c.__name__ in out and out[c.__name__] != row:
        problems.append(f"two different definitions named {c.__name__}")
    out[c.__name__] = row
    d = docs.get(c.__name__)
    if d is None:
        problems.append(f"{c.__name__}: not in docs/list-of-avps.md")
    else:
        row["name"] = d["name"]
        if d["code"] != code:
            problems.append(f"{c.__name__}: docs code {d['code']} != class code {code}")
        if d["type"] != row["type"]:
            problems.append(f"{c.__name__}: docs type {d['type']} != class type {row['type']}")
    if vendor is None and code in defs and d and defs[code].replace("-", "").lower() != d["name"].replace("-", "").lower():
        problems.append(f"{c.__name__}: definitions.py name {defs[code]!r} != docs name {d['name']!r}")
    if (inst.get_flags() >= 128) != (vendor is not None):
        problems.append(f"{c.__name__}: V flag {inst.get_flags():#x} vs vendor {vendor}")
for k in docs:
    if k not in out:
        problems.append(f"docs row {k} has no class")
json.dump(out, open("/verif/ref/avp_dictionary.json", "w"), indent=0, sort_keys=True)
print(len(out), "rows;", len(problems), "disagreements")
for p in problems:
    print("  ", p)
