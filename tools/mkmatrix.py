#!/usr/bin/env python3
"""seeded/MATRIX.txt from the meta.json files: one line per kept seed - property it breaks, verdict of the property's quick
check when the seed arrived, verdict of the latest re-check (tools/seedmatrix.sh), first violated query."""
import glob
import json
import os
import re

HERE = os.path.dirname(os.path.dirname(os.path.abspath(__file__)))
rows = []
for path in sorted(glob.glob(os.path.join(HERE, "seeded", "*", "meta.json"))):
    m = json.load(open(path))
    c = m.get("confirmed_by_me", {})
    first = c.get("check_rc")
    re_ = (c.get("recheck") or {}).get("check_rc")
    lines = (c.get("recheck") or {}).get("check_lines") or c.get("check_lines") or []
    viol = [l for l in lines if l.startswith("VIOLATION")]
    q = re.sub(r".*replays/[^/]+/", "", viol[0]).replace(".json", "") if viol else "-"
    word = {0: "MISSED", 1: "caught", 3: "harness-error", None: "?"}
    now = word.get(re_ if re_ is not None else first, str(re_))
    extra = ""
    if c.get("other_checks"):
        extra = " [" + "; ".join(f"{k}: {v}" for k, v in c["other_checks"].items())[:160] + "]"
    if c.get("note"):
        extra += " (" + c["note"][:160] + ")"
    rows.append(f"{os.path.basename(os.path.dirname(path)):7} breaks {m.get('property'):4} at arrival: {word.get(first, first):7} now: {now:7} "
                f"first violated query: {q:60} | {(m.get('title') or '')[:110]}{extra}")
open(os.path.join(HERE, "seeded", "MATRIX.txt"), "w").write("\n".join(rows) + "\n")
print(f"{len(rows)} seeds; missed at arrival: {sum(' at arrival: MISSED' in r for r in rows)}; missed now: {sum(' now: MISSED' in r for r in rows)}")
