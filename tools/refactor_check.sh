#!/bin/sh
# run the quick checks that touch the refactored files against each benign refactor; expect no VIOLATION / HARNESS-ERROR
cd "$(dirname "$0")/.."
for spec in "RFa C04 C05 C08 C03 C07 C06" "RFb C06 C07 C03 C08 C04" "RFc C11 C15 C13 C14 C01 C12"; do
  set -- $spec; rf=$1; shift
  wt=/tmp/wt_$rf
  base=HEAD; [ "$rf" = RFa ] && base=f983e87     # RFa was written against the tree before the receive-worker fix (615237c)
  git -C /repo worktree add --detach $wt $base -q || continue
  (cd $wt && git apply /verif/tools/refactors/$rf.diff) || { echo "$rf PATCH DOES NOT APPLY" >> .work/rf.txt; git -C /repo worktree remove --force $wt; continue; }
  for p in "$@"; do
    VF_REPO=$wt timeout 1500 bin/check $p --no-evidence > .work/rf_${rf}_$p.log 2>&1
    echo "$rf $p rc=$? $(grep SUMMARY .work/rf_${rf}_$p.log) $(grep -c '^VIOLATION' .work/rf_${rf}_$p.log) violations" >> .work/rf.txt
  done
  git -C /repo worktree remove --force $wt
done
echo FIN >> .work/rf.txt
