#!/bin/sh
# run every quick check sequentially, log + timing
cd "$(dirname "$0")/.."
for p in C17 C18 C20 C16 C15 C12 C13 C10 C19 C01 C02 C09 C11 C06 C07 C03 C14 C04 C05 C08; do
  s=$(date +%s)
  bin/check $p --tier quick > .work/qa/$p.log 2>&1; rc=$?
  e=$(date +%s)
  echo "$p rc=$rc wall=$((e-s))s $(grep SUMMARY .work/qa/$p.log)" >> .work/qa/ALL.txt
done
echo DONE >> .work/qa/ALL.txt
