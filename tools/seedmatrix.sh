#!/bin/sh
# usage: tools/seedmatrix.sh [seed-name ...]   (default: every directory under seeded/)
# Runs bin/seedtest for each kept seed against the quick check of the property it breaks and
# writes seeded/MATRIX.txt (one line per seed: property, caught yes/no, first VIOLATION query).
cd "$(dirname "$0")/.." || exit 3
OUT=seeded/MATRIX.txt
[ $# -gt 0 ] && SEEDS="$*" || { SEEDS=$(ls -d seeded/*/ | xargs -n1 basename); : > $OUT; }
for s in $SEEDS; do
  prop=$(python3 -c "import json; print(json.load(open('seeded/$s/meta.json'))['property'])" 2>/dev/null)
  t0=$(date +%s)
  bin/seedtest seeded/$s $prop > .work/seed_$s.log 2>&1
  t1=$(date +%s)
  rc=$(grep -o "check rc=[0-9]*" .work/seed_$s.log | tail -1)
  du=$(grep "demo unpatched" .work/seed_$s.log | grep -o "rc=[0-9]*")
  dp=$(grep "demo patched" .work/seed_$s.log | grep -o "rc=[0-9]*")
  q=$(grep -A1 "^VIOLATION" .work/seed_$s.log | grep "^    " | head -1 | cut -c1-110)
  grep -v "^$s " $OUT > $OUT.tmp 2>/dev/null; mv $OUT.tmp $OUT
  echo "$s property=$prop demo_clean:$du demo_patched:$dp $rc wall=$((t1-t0))s |$q" >> $OUT
  python3 - "seeded/$s/meta.json" "$rc" ".work/seed_$s.log" <<'PYEOF'
import json, sys, re, datetime
path, rc, log = sys.argv[1:4]
m = json.load(open(path))
lines = [l.strip()[:300] for l in open(log) if re.match(r"VIOLATION|SUMMARY|HARNESS-ERROR", l)][:8]
c = m.setdefault("confirmed_by_me", {})
first = c.get("check_rc")
c["recheck"] = {"check_rc": int(rc.split("=")[1]) if "=" in rc else None, "check_lines": lines,
                "note": "quick check of the property re-run on the patched tree with the current machinery"}
if first == 0 and c["recheck"]["check_rc"] == 1:
    c["recheck"]["note"] += "; MISSED by the machinery as it was when the seed arrived, caught after the strengthening recorded in DESIGN.md 9.5"
json.dump(m, open(path, "w"), indent=1)
PYEOF
done
