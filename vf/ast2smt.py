"""E2: AST -> SMT-LIB2 for leaf integer kernels (DESIGN.md section 2.3).

A tiny symbolic interpreter over the Python AST of the *real* function (source read with
inspect.getsource at run time).  Python `int` -> SMT `Int` (no wrap-around), 4-byte `bytes`
-> four Int terms in [0,255].  Every `if` on a symbolic condition forks, so the result of
interpreting a function is a finite list of paths (path condition, outcome, final state).
An obligation "for all inputs: pre -> post(outcome)" becomes, per path, the query
pc AND pre AND NOT post, which must be `unsat` in z3 AND cvc5 (batched with push/pop).

Anything outside the supported fragment raises Unsupported -> the obligation is reported
inconclusive (never proved, never a violation).
"""
import ast
import inspect
import os
import re
import subprocess
import tempfile
import textwrap
import time


class Unsupported(Exception):
    pass


class Sym:
    """SMT term of sort Int or Bool."""
    __slots__ = ("s", "sort", "lo", "hi")

    def __init__(self, s, sort="Int", lo=None, hi=None):
        self.s, self.sort, self.lo, self.hi = s, sort, lo, hi

    def __repr__(self):
        return f"Sym({self.s})"


class Bytes4:
    """bytes of known length whose elements are python ints or Sym Int in [0,255]."""

    def __init__(self, elems):
        self.elems = list(elems)


class Obj:
    def __init__(self, **attrs):
        self.__dict__["attrs"] = dict(attrs)


class Raised(Exception):
    def __init__(self, name):
        self.name = name


def smt(v):
    if isinstance(v, Sym):
        return v.s
    if isinstance(v, bool):
        return "true" if v else "false"
    if isinstance(v, int):
        return str(v) if v >= 0 else f"(- {-v})"
    raise Unsupported(f"cannot render {v!r}")


def is_sym(v):
    return isinstance(v, Sym)


def as_bool(v):
    if isinstance(v, Sym):
        if v.sort == "Bool":
            return v
        return Sym(f"(not (= {v.s} 0))", "Bool")
    if isinstance(v, Bytes4):
        return len(v.elems) > 0
    return bool(v)


def s_not(b):
    return (not b) if isinstance(b, bool) else Sym(f"(not {b.s})", "Bool")


def s_and(a, b):
    if isinstance(a, bool):
        return b if a else False
    if isinstance(b, bool):
        return a if b else False
    return Sym(f"(and {a.s} {b.s})", "Bool")


def bits_and(x, m):
    """x: Sym Int known >= 0, m: python int >= 0  (the P1 lemma, DESIGN appendix A)"""
    terms = [f"(* (mod (div {x.s} {1 << k}) 2) {1 << k})" for k in range(m.bit_length()) if m >> k & 1]
    if not terms:
        return 0
    return Sym(terms[0] if len(terms) == 1 else "(+ " + " ".join(terms) + ")", "Int", 0, m)


class Path:
    def __init__(self, pc, kind, value, state):
        self.pc, self.kind, self.value, self.state = pc, kind, value, state


class Interp:
    """Eager path enumeration: every method returns a list."""

    def __init__(self, fn, max_depth=6):
        self.fn = fn
        self.max_depth = max_depth
        self.encoded = []
        self._excs = []          # exceptional paths raised while evaluating the current statement

    # ---------------- entry
    def run(self, args):
        return [Path(pc, kind, val, env) for pc, kind, val, env in self._call(self.fn, args, [], 0)]

    def _src(self, fn):
        src = textwrap.dedent(inspect.getsource(fn))
        fdef = ast.parse(src).body[0]
        if not isinstance(fdef, ast.FunctionDef):
            raise Unsupported("not a function")
        name = f"{fn.__module__}.{fn.__qualname__}"
        if name not in self.encoded:
            self.encoded.append(name)
        return fdef

    def _call(self, fn, args, pc, depth):
        if depth > self.max_depth:
            raise Unsupported("inlining depth")
        fdef = self._src(fn)
        env = dict(args)
        env["__globals__"] = fn.__globals__
        out = []
        for pc1, kind, val, env1 in self._block(fdef.body, env, pc, depth):
            out.append((pc1, "return" if kind == "fall" else kind, val, env1))
        return out

    # ---------------- statements -> list of (pc, kind, value, env); kind in return|raise|fall
    def _block(self, stmts, env, pc, depth):
        if not stmts:
            return [(pc, "fall", None, env)]
        out = []
        for pc1, kind, val, env1 in self._stmt(stmts[0], env, pc, depth):
            if kind == "fall":
                out += self._block(stmts[1:], env1, pc1, depth)
            else:
                out.append((pc1, kind, val, env1))
        return out

    def _stmt(self, node, env, pc, depth):
        saved, self._excs = self._excs, []
        try:
            out = self._stmt1(node, env, pc, depth)
            out += [(pce, "raise", name, env) for pce, name in self._excs]
            return out
        finally:
            self._excs = saved

    def _stmt1(self, node, env, pc, depth):
        if isinstance(node, ast.Expr):
            if isinstance(node.value, ast.Constant):     # docstring
                return [(pc, "fall", None, env)]
            return [(pc1, "fall", None, env) for pc1, v in self._eval(node.value, env, pc, depth)]
        if isinstance(node, ast.Return):
            if node.value is None:
                return [(pc, "return", None, env)]
            return [(pc1, "return", v, env) for pc1, v in self._eval(node.value, env, pc, depth)]
        if isinstance(node, ast.Raise):
            exc = node.exc
            if isinstance(exc, ast.Call):
                exc = exc.func
            name = exc.id if isinstance(exc, ast.Name) else getattr(exc, "attr", None)
            return [(pc, "raise", name, env)]
        if isinstance(node, ast.If):
            out = []
            for pc1, c in self._eval(node.test, env, pc, depth):
                c = as_bool(c)
                if isinstance(c, bool):
                    out += self._block(node.body if c else node.orelse, dict(env), pc1, depth)
                else:
                    out += self._block(node.body, dict(env), pc1 + [c.s], depth)
                    out += self._block(node.orelse, dict(env), pc1 + [f"(not {c.s})"], depth)
            return out
        if isinstance(node, ast.Assign):
            if len(node.targets) != 1:
                raise Unsupported("multi-target assign")
            out = []
            for pc1, v in self._eval(node.value, env, pc, depth):
                env1 = dict(env)
                self._assign(node.targets[0], v, env1)
                out.append((pc1, "fall", None, env1))
            return out
        if isinstance(node, ast.Pass):
            return [(pc, "fall", None, env)]
        raise Unsupported(f"statement {type(node).__name__} at line {node.lineno}")

    def _assign(self, target, v, env):
        if isinstance(target, ast.Name):
            env[target.id] = v
        elif isinstance(target, ast.Attribute) and isinstance(target.value, ast.Name):
            o = env[target.value.id]
            if not isinstance(o, Obj):
                raise Unsupported("attribute store on non-object")
            o2 = Obj(**o.attrs)
            o2.attrs[target.attr] = v
            env[target.value.id] = o2
        else:
            raise Unsupported("assignment target")

    # ---------------- expressions -> list of (pc, value)
    def _eval(self, node, env, pc, depth):
        m = getattr(self, "_e_" + type(node).__name__, None)
        if m is None:
            raise Unsupported(f"expression {type(node).__name__} at line {getattr(node, 'lineno', '?')}")
        return m(node, env, pc, depth)

    def _seq(self, nodes, env, pc, depth):
        """evaluate nodes left to right -> list of (pc, [values])"""
        acc = [(pc, [])]
        for n in nodes:
            nxt = []
            for pc0, vals in acc:
                for pc1, v in self._eval(n, env, pc0, depth):
                    nxt.append((pc1, vals + [v]))
            acc = nxt
        return acc

    def _e_Constant(self, node, env, pc, depth):
        return [(pc, node.value)]

    def _e_Name(self, node, env, pc, depth):
        import builtins
        if node.id in env:
            return [(pc, env[node.id])]
        if node.id in env["__globals__"]:
            return [(pc, env["__globals__"][node.id])]
        if node.id in ("bytes", "bytearray", "int", "len", "zip", "bool", "str"):
            return [(pc, getattr(builtins, node.id))]
        raise Unsupported(f"name {node.id}")

    def _e_Attribute(self, node, env, pc, depth):
        out = []
        for pc1, o in self._eval(node.value, env, pc, depth):
            if isinstance(o, Obj):
                if node.attr not in o.attrs:
                    raise Unsupported(f"attribute {node.attr} not modelled")
                out.append((pc1, o.attrs[node.attr]))
            elif o is int and node.attr == "from_bytes":
                out.append((pc1, ("int.from_bytes",)))
            elif isinstance(o, (Sym, Bytes4)):
                raise Unsupported(f"attribute {node.attr} of symbolic value")
            else:
                out.append((pc1, getattr(o, node.attr)))
        return out

    def _e_UnaryOp(self, node, env, pc, depth):
        out = []
        for pc1, v in self._eval(node.operand, env, pc, depth):
            if isinstance(node.op, ast.Not):
                out.append((pc1, s_not(as_bool(v))))
            elif isinstance(node.op, ast.USub):
                out.append((pc1, Sym(f"(- {v.s})") if is_sym(v) else -v))
            else:
                raise Unsupported("unary op")
        return out

    def _e_BoolOp(self, node, env, pc, depth):
        is_and = isinstance(node.op, ast.And)

        def go(i, pc0):
            out = []
            for pc1, v in self._eval(node.values[i], env, pc0, depth):
                if i == len(node.values) - 1:
                    out.append((pc1, v))
                    continue
                b = as_bool(v)
                if isinstance(b, bool):
                    if b == is_and:
                        out += go(i + 1, pc1)
                    else:
                        out.append((pc1, v))
                else:
                    cont = b.s if is_and else f"(not {b.s})"
                    stop = f"(not {b.s})" if is_and else b.s
                    out += go(i + 1, pc1 + [cont])
                    out.append((pc1 + [stop], (not is_and)))
            return out
        return go(0, pc)

    def _e_IfExp(self, node, env, pc, depth):
        out = []
        for pc1, c in self._eval(node.test, env, pc, depth):
            c = as_bool(c)
            if isinstance(c, bool):
                out += self._eval(node.body if c else node.orelse, env, pc1, depth)
            else:
                out += self._eval(node.body, env, pc1 + [c.s], depth)
                out += self._eval(node.orelse, env, pc1 + [f"(not {c.s})"], depth)
        return out

    def _e_Compare(self, node, env, pc, depth):
        out = []
        for pc1, vals in self._seq([node.left] + list(node.comparators), env, pc, depth):
            acc = True
            for op, a, b in zip(node.ops, vals, vals[1:]):
                acc = s_and(acc, self._cmp(op, a, b))
            out.append((pc1, acc))
        return out

    def _cmp(self, op, a, b):
        if isinstance(a, Bytes4) or isinstance(b, Bytes4):
            if isinstance(a, bytes):
                a = Bytes4(list(a))
            if isinstance(b, bytes):
                b = Bytes4(list(b))
            if not (isinstance(a, Bytes4) and isinstance(b, Bytes4)):
                raise Unsupported("bytes compare")
            if len(a.elems) != len(b.elems):
                eq = False
            else:
                eq = True
                for x, y in zip(a.elems, b.elems):
                    eq = s_and(eq, self._cmp(ast.Eq(), x, y))
            if isinstance(op, ast.Eq):
                return eq
            if isinstance(op, ast.NotEq):
                return s_not(eq)
            raise Unsupported("bytes ordering")
        if not is_sym(a) and not is_sym(b):
            table = {ast.Eq: lambda: a == b, ast.NotEq: lambda: a != b, ast.Lt: lambda: a < b,
                     ast.LtE: lambda: a <= b, ast.Gt: lambda: a > b, ast.GtE: lambda: a >= b,
                     ast.Is: lambda: a is b, ast.IsNot: lambda: a is not b, ast.In: lambda: a in b,
                     ast.NotIn: lambda: a not in b}
            return table[type(op)]()
        for v in (a, b):
            if isinstance(v, Sym) and v.sort == "Bool":
                raise Unsupported("comparison of symbolic bool")
        sa, sb = smt(a), smt(b)
        if isinstance(op, ast.Eq):
            return Sym(f"(= {sa} {sb})", "Bool")
        if isinstance(op, ast.NotEq):
            return Sym(f"(not (= {sa} {sb}))", "Bool")
        sym = {ast.Lt: "<", ast.LtE: "<=", ast.Gt: ">", ast.GtE: ">="}.get(type(op))
        if sym is None:
            raise Unsupported("comparison op")
        return Sym(f"({sym} {sa} {sb})", "Bool")

    def _e_BinOp(self, node, env, pc, depth):
        return [(pc1, self._bin(node.op, a, b)) for pc1, (a, b) in self._seq([node.left, node.right], env, pc, depth)]

    def _bin(self, op, a, b):
        if not is_sym(a) and not is_sym(b):
            if isinstance(a, Bytes4) or isinstance(b, Bytes4):
                raise Unsupported("bytes arithmetic")
            import operator as o
            table = {ast.Add: o.add, ast.Sub: o.sub, ast.Mult: o.mul, ast.FloorDiv: o.floordiv, ast.Mod: o.mod,
                     ast.BitAnd: o.and_, ast.BitOr: o.or_, ast.BitXor: o.xor, ast.Pow: o.pow,
                     ast.LShift: o.lshift, ast.RShift: o.rshift}
            return table[type(op)](a, b)
        if isinstance(op, (ast.BitAnd, ast.BitOr, ast.BitXor)):
            if is_sym(a) and is_sym(b):
                raise Unsupported("bitwise op on two symbolic operands")
            x, m = (a, b) if is_sym(a) else (b, a)
            if not isinstance(m, int) or m < 0 or x.lo is None or x.lo < 0:
                raise Unsupported("bitwise op needs a non-negative symbolic operand and a concrete mask")
            conj = bits_and(x, m)
            if isinstance(op, ast.BitAnd):
                return conj
            cs = smt(conj)
            if isinstance(op, ast.BitOr):
                return Sym(f"(- (+ {x.s} {m}) {cs})", "Int", 0, None)
            return Sym(f"(- (+ {x.s} {m}) (* 2 {cs}))", "Int", 0, None)
        if isinstance(op, ast.Pow):
            raise Unsupported("symbolic exponentiation")
        if isinstance(op, (ast.LShift, ast.RShift)):
            if is_sym(b) or b < 0:
                raise Unsupported("shift by symbolic / negative amount")
            if isinstance(op, ast.LShift):
                return self._bin(ast.Mult(), a, 2 ** b)
            return self._bin(ast.FloorDiv(), a, 2 ** b)
        sa, sb = smt(a), smt(b)
        if isinstance(op, ast.Add):
            lo = a.lo + b.lo if is_sym(a) and is_sym(b) and a.lo is not None and b.lo is not None else None
            return Sym(f"(+ {sa} {sb})", "Int", lo)
        if isinstance(op, ast.Sub):
            return Sym(f"(- {sa} {sb})")
        if isinstance(op, ast.Mult):
            if is_sym(a) and is_sym(b):
                raise Unsupported("symbolic * symbolic")
            lo = 0 if ((is_sym(a) and a.lo is not None and a.lo >= 0 and b >= 0) or
                       (is_sym(b) and b.lo is not None and b.lo >= 0 and a >= 0)) else None
            return Sym(f"(* {sa} {sb})", "Int", lo)
        if isinstance(op, (ast.FloorDiv, ast.Mod)):
            if is_sym(b) or b <= 0:
                raise Unsupported("division by symbolic / non-positive value")
            # python floor semantics == SMT-LIB div/mod for positive divisors
            if isinstance(op, ast.FloorDiv):
                return Sym(f"(div {sa} {sb})", "Int", 0 if (a.lo is not None and a.lo >= 0) else None)
            return Sym(f"(mod {sa} {sb})", "Int", 0, b - 1)
        raise Unsupported(f"binary op {type(op).__name__}")

    def _e_Subscript(self, node, env, pc, depth):
        out = []
        for pc2, (o, i) in self._seq([node.value, node.slice], env, pc, depth):
            if isinstance(o, Bytes4):
                if is_sym(i):
                    raise Unsupported("symbolic index")
                out.append((pc2, o.elems[i]))
            elif isinstance(o, (bytes, list, tuple, dict)) and not is_sym(i):
                out.append((pc2, o[i]))
            else:
                raise Unsupported("subscript")
        return out

    def _e_List(self, node, env, pc, depth):
        return self._seq(node.elts, env, pc, depth)

    _e_Tuple = _e_List

    def _e_ListComp(self, node, env, pc, depth):
        if len(node.generators) != 1 or node.generators[0].ifs:
            raise Unsupported("comprehension shape")
        g = node.generators[0]
        out = []
        for pc1, it in self._eval(g.iter, env, pc, depth):
            acc = [(pc1, [])]
            for item in list(it):
                env1 = dict(env)
                if isinstance(g.target, ast.Tuple):
                    for t, v in zip(g.target.elts, item):
                        env1[t.id] = v
                else:
                    env1[g.target.id] = item
                nxt = []
                for pc0, vals in acc:
                    for pc2, v in self._eval(node.elt, env1, pc0, depth):
                        nxt.append((pc2, vals + [v]))
                acc = nxt
            out += acc
        return out

    def _e_Call(self, node, env, pc, depth):
        if node.keywords and not all(k.arg == "byteorder" for k in node.keywords):
            raise Unsupported("keyword arguments")
        out = []
        if isinstance(node.func, ast.Attribute):
            recvs = self._eval(node.func.value, env, pc, depth)
            if all(isinstance(r, Obj) for _, r in recvs):
                for pc0, recv in recvs:
                    meth = recv.attrs.get(node.func.attr)
                    if meth is None:
                        raise Unsupported(f"method {node.func.attr} not modelled")
                    for pc1, args in self._seq(node.args, env, pc0, depth):
                        if inspect.isfunction(meth) and (meth.__module__ or "").startswith("bromelia"):
                            params = list(inspect.signature(meth).parameters)
                            out += self._inline(meth, dict(zip(params, [recv] + args)), pc1, depth)
                        else:
                            out.append((pc1, meth(*args)))
                return out
        for pc0, f in self._eval(node.func, env, pc, depth):
            for pc1, args in self._seq(node.args, env, pc0, depth):
                out += self._apply(f, args, pc1, depth)
        return out

    def _inline(self, fn, args, pc, depth):
        out = []
        for pc1, kind, val, env1 in self._call(fn, args, pc, depth + 1):
            if kind == "raise":
                self._excs.append((pc1, val))
            else:
                out.append((pc1, val))
        return out

    def _apply(self, f, args, pc, depth):
        if f == ("int.from_bytes",):
            b = args[0]
            if isinstance(b, bytes):
                return [(pc, int.from_bytes(b, "big"))]
            if not isinstance(b, Bytes4):
                raise Unsupported("int.from_bytes argument")
            n = len(b.elems)
            terms = [f"(* {smt(e)} {256 ** (n - 1 - i)})" for i, e in enumerate(b.elems)]
            return [(pc, Sym("(+ " + " ".join(terms) + ")" if len(terms) > 1 else terms[0], "Int", 0, 256 ** n - 1))]
        if f in (bytes, bytearray):
            v = args[0]
            if isinstance(v, Bytes4):
                return [(pc, v)]
            if isinstance(v, list):
                return [(pc, Bytes4(v))]
            raise Unsupported("bytes() argument")
        if f is zip:
            seqs = [a.elems if isinstance(a, Bytes4) else list(a) for a in args]
            return [(pc, list(zip(*seqs)))]
        if f is len:
            v = args[0]
            return [(pc, len(v.elems) if isinstance(v, Bytes4) else len(v))]
        if f is bool:
            return [(pc, as_bool(args[0]))]
        if inspect.isfunction(f):
            mod = getattr(f, "__module__", "") or ""
            if not mod.startswith("bromelia"):
                raise Unsupported(f"call to non-repo function {mod}.{f.__name__}")
            params = list(inspect.signature(f).parameters)
            return self._inline(f, dict(zip(params, args)), pc, depth)
        raise Unsupported(f"call to {f!r}")


# ------------------------------------------------------------------ solver back ends
def _run_solver(cmd, text, timeout):
    with tempfile.NamedTemporaryFile("w", suffix=".smt2", delete=False, dir=os.environ.get("VF_WORK")) as f:
        f.write(text)
        path = f.name
    t0 = time.time()
    try:
        p = subprocess.run(cmd + [path], capture_output=True, text=True, timeout=timeout)
        out = p.stdout + p.stderr
    except subprocess.TimeoutExpired:
        out = "timeout"
    finally:
        os.unlink(path)
    return out, time.time() - t0


_HERE = os.path.dirname(os.path.dirname(os.path.abspath(__file__)))
_Z3 = os.path.join(_HERE, ".venv", "bin", "z3")          # z3 5.1.0, the z3-solver wheel's CLI
SOLVERS = {
    "z3": [os.environ.get("VF_Z3") or (_Z3 if os.path.exists(_Z3) else "/usr/bin/z3"), "-smt2"],
    "cvc5": ["cvc5", "--incremental", "--lang=smt2"],
}


def decide(decls, queries, timeout=120):
    """decls: list of SMT declarations/assertions common to all queries;
    queries: list of lists of assertion strings.  -> (per-query verdicts, stats)
    verdict: 'unsat' only if BOTH solvers say unsat; 'sat' if both say sat; else 'unknown'."""
    text = ["(set-option :produce-models true)", "(set-logic ALL)"] + decls
    for q in queries:
        text.append("(push 1)")
        text += [f"(assert {a})" for a in q]
        text.append("(check-sat)")
        text.append("(pop 1)")
    text = "\n".join(text) + "\n"
    res, stats = {}, {}
    for name, cmd in SOLVERS.items():
        out, secs = _run_solver(cmd, text, timeout)
        stats[name + "_s"] = round(secs, 3)
        if "(error" in out or out == "timeout":
            res[name] = ["unknown"] * len(queries)
            stats[name + "_error"] = out[:300]
            continue
        lines = [l.strip() for l in out.splitlines() if l.strip() in ("sat", "unsat", "unknown")]
        if len(lines) != len(queries):
            res[name] = ["unknown"] * len(queries)
            stats[name + "_error"] = f"expected {len(queries)} answers, got {len(lines)}: {out[:200]}"
        else:
            res[name] = lines
    verdicts = []
    for i in range(len(queries)):
        a, b = res["z3"][i], res["cvc5"][i]
        verdicts.append(a if a == b else "unknown")
    return verdicts, stats, res


def model(decls, assertions, names, timeout=60):
    """One sat query with (get-value); z3 only (used for counterexamples and translator validation)."""
    text = "\n".join(["(set-option :produce-models true)", "(set-logic ALL)"] + decls
                     + [f"(assert {a})" for a in assertions]
                     + ["(check-sat)", "(get-value (" + " ".join(names) + "))"]) + "\n"
    out, _ = _run_solver(SOLVERS["z3"], text, timeout)
    if not out.lstrip().startswith("sat"):
        return None
    vals = {}
    for name, val in re.findall(r"\((\w+)\s+(\(-\s*\d+\)|-?\d+|true|false)\)", out):
        if val in ("true", "false"):
            vals[name] = val == "true"
        else:
            vals[name] = -int(re.sub(r"[^\d]", "", val)) if val.startswith("(") else int(val)
    return vals
