"""Shared generator: in-domain values for every dictionary AVP class, built from a pool of (possibly symbolic)
leaves, together with the reference encoding of the data.  Used by C01/C02/C03/C09/C10.

The class list comes from live introspection (DiameterAVP.__subclasses__()), so classes added later are picked
up; expected (vendor, code, type, default flags) come from the frozen reference dictionary
/verif/ref/avp_dictionary.json (written at design time, cross-read with docs/list-of-avps.md and
bromelia/definitions.py) - classes missing from the frozen file fall back to their own attributes and are reported.
"""
import json
import os

from vf.h import ref_avp

from bromelia.base import DiameterAVP
import bromelia.avps  # noqa: F401  (registers every dictionary class)

HERE = os.path.dirname(os.path.dirname(os.path.abspath(__file__)))
_REF = None


def ref_dictionary():
    global _REF
    if _REF is None:
        with open(os.path.join(HERE, "ref", "avp_dictionary.json")) as f:
            _REF = json.load(f)
    return _REF


def classes():
    import importlib, pkgutil
    import bromelia.lib as lib
    for m in pkgutil.iter_modules(lib.__path__):      # some AVP modules are only imported by the command modules
        try:
            importlib.import_module(f"bromelia.lib.{m.name}.messages")
        except BaseException:                          # noqa
            pass
    seen, out = set(), []
    for c in DiameterAVP.__subclasses__():
        if id(c) not in seen:
            seen.add(id(c))
            out.append(c)
    return out


def by_name(name):
    # the live class currently bound to that name in bromelia.avps (what users import)
    c = getattr(bromelia.avps, name, None)
    if c is None:
        for k in classes():
            if k.__name__ == name:
                return k
        raise KeyError(name)
    return c


def type_of(cls):
    for b in cls.__mro__:
        if b.__module__ == "bromelia.types" and b.__name__.endswith("Type") and b.__name__ != "BaseDataType":
            return b.__name__[:-4]
    return "?"


def expected(cls):
    """(code:int, vendor:int|None, flags:int, type:str) the published dictionary gives for this class"""
    row = ref_dictionary().get(cls.__name__)
    if row is None:
        code = int.from_bytes(cls.code, "big")
        vendor = int.from_bytes(cls.vendor_id, "big") if cls.vendor_id is not None else None
        return code, vendor, None, type_of(cls)
    return row["code"], row["vendor"], row["flags"], row["type"]


URIS = ["aaa://host.example.com", "aaas://host.example.com:6666;transport=tcp;protocol=diameter",
        "aaa://ab.cd;transport=sctp", "aaa://host.example.com:1813;protocol=radius"]

OCTET_LIKE = ("OctetString", "UTF8String", "DiameterIdentity")


class Leaves:
    """Pool of leaf values.  In planning mode (ints/blob None) it only counts what a shape needs."""

    def __init__(self, ints=None, blob=None):
        self.ints, self.blob = ints, blob
        self.ni = self.nb = 0
        self.ranges = []          # per int: (lo, hi) inclusive
        self.planning = ints is None

    def int(self, lo, hi):
        i = self.ni
        self.ni += 1
        self.ranges.append([lo, hi])
        if self.planning:
            return lo
        return self.ints[i]

    def bytes(self, n):
        j = self.nb
        self.nb += n
        if self.planning:
            return bytes(n)
        return self.blob[j:j + n]


def ints_ok(ints, ranges):
    """precondition helper: every symbolic int inside its planned range"""
    if len(ints) != len(ranges):
        return False
    for x, (lo, hi) in zip(ints, ranges):
        if not (lo <= x <= hi):
            return False
    return True


def value(cls, lv, L=3, depth=0, max_depth=4, opt=False, intpath=True):
    """-> (constructor argument, reference data bytes).  L: length used for octet-like leaves at this level."""
    t = type_of(cls)
    name = cls.__name__
    if name == "FramedIpAddressAVP":
        v = bytes([10]) + lv.bytes(3)
        return v, v
    if t in OCTET_LIKE:
        v = lv.bytes(L)
        return v, v
    if t == "Unsigned32":
        if intpath:
            n = lv.int(0, 2 ** 32 - 1)
            return n, n.to_bytes(4, "big")
        v = lv.bytes(4)
        return v, v
    if t == "Unsigned64":
        if intpath:
            n = lv.int(0, 2 ** 63 - 1)
            return n, n.to_bytes(8, "big")
        v = lv.bytes(8)
        return v, v
    if t in ("Integer32", "Time"):
        v = lv.bytes(4)
        return v, v
    if t == "Enumerated":
        vals = list(cls.values)
        i = lv.int(0, len(vals) - 1)
        v = vals[i]
        return v, v
    if t == "Address":
        v = b"\x00\x01" + lv.bytes(4)
        return v, v
    if t == "DiameterURI":
        u = URIS[(depth + L) % len(URIS)]
        return u, u.encode()
    if t == "Grouped":
        members, ref = [], b""
        table = list(getattr(cls, "mandatory", {}).values())
        if opt or not table:
            table = table + list(getattr(cls, "optionals", {}).values())[:2]
        if depth >= max_depth:
            table = [m for m in table if type_of(m) != "Grouped"]
        for m in table:
            inst, rdata = build(m, lv, L=L, depth=depth + 1, max_depth=max_depth, opt=False, intpath=intpath)
            members.append(inst)
            ref += ref_for(m, rdata)
        if not members:
            # a Grouped class without a usable member table (e.g. Failed-AVP): one unknown generic AVP
            data = lv.bytes(L)
            g = DiameterAVP(code=99999, flags=0x40, data=data)
            members.append(g)
            ref += ref_avp(99999, 0x40, None, data)
        return members, ref
    raise KeyError(f"no value factory for {name} of type {t}")


def build(cls, lv, L=3, depth=0, max_depth=4, opt=False, intpath=True):
    """-> (instance, reference data bytes)"""
    v, ref = value(cls, lv, L=L, depth=depth, max_depth=max_depth, opt=opt, intpath=intpath)
    return cls(v), ref


_OWN_FLAGS = {}


def ref_for(cls, ref_data, flags=None):
    code, vendor, dflags, _ = expected(cls)
    if flags is None:
        flags = dflags
    if flags is None:
        # class unknown to the frozen dictionary (added after design time): no published flags to compare with,
        # so take the class's own default flags from a concrete instance (V must still agree with the vendor)
        if cls not in _OWN_FLAGS:
            inst, _ = build(cls, Leaves())
            _OWN_FLAGS[cls] = inst.get_flags()
        flags = _OWN_FLAGS[cls]
    return ref_avp(code, flags, vendor, ref_data)


def plan(cls, L=3, max_depth=4, opt=False, intpath=True):
    """dry run -> {'ni':..,'nb':..,'ranges':[..]} needed by build() for this shape"""
    lv = Leaves()
    build(cls, lv, L=L, max_depth=max_depth, opt=opt, intpath=intpath)
    return {"ni": lv.ni, "nb": lv.nb, "ranges": lv.ranges}
