"""E3 node: the real transport / association / state-machine methods re-compiled from the current source as coroutines.

Which methods become coroutines is computed, not listed: starting from the blocking primitives
{acquire, wait, get, select, sleep} the set of "yielding" method names is closed under "calls a yielding name" over the
classes that make up a connection (fixpoint on the ASTs read with inspect.getsource at run time).  Every such method is
coroutinised (vf.cosched.coroutinize) and bound on dynamically created SUBCLASSES of the real classes; everything else
stays the untouched real code.  Objects are wired with stand-in Lock/Event/Queue/selector/socket.
"""
import ast
import inspect
import selectors
import textwrap
import types

from vf import cosched as CS
from vf.cosched import HLock, HEvent, HQueue, Timed, _op
from vf.h import HarnessError

import bromelia.transport as T
import bromelia.setup as S
import bromelia.statemachine as SM
from bromelia.config import CLOSED, WAIT_CONN_ACK, WAIT_I_CEA, OPEN, CLOSING, WAIT_RETURNS, WAIT_CONN_ACK_ELECT

T.random = types.SimpleNamespace(choice=lambda seq: seq[0])
ROOTS = {"acquire", "wait", "get", "select", "sleep"}
STATE_CLASSES = [SM.Closed, SM.WaitConnAck, SM.WaitInitiatorCEA, SM.Open, SM.WaitReturns, SM.WaitConnAckElect, SM.Closing]
CLASSES = [T.TcpConnection, T.TcpClient, T.TcpServer, S.DiameterAssociation, S.Diameter, SM.State, SM.PeerStateMachine] + STATE_CLASSES
#: methods whose every statement gets a preemption point in the 'lines' variants (unlocked shared state lives here)
LINE_METHODS = {"read", "_read", "write", "_write", "recv_message_from_queue", "_run", "_set_selector_events_mask", "send_message_from_queue",
                "get_message", "get_postprocess_recv_message", "notify_postprocess_message", "close", "set_closed_state"}


LOCK_ATTRS = set()


def _calls(fn):
    try:
        tree = ast.parse(textwrap.dedent(inspect.getsource(fn)))
    except (OSError, TypeError, SyntaxError):
        return set()
    out = set()
    for n in ast.walk(tree):
        if isinstance(n, ast.With):
            for it in n.items:
                if isinstance(it.context_expr, ast.Attribute) and "lock" in it.context_expr.attr:
                    out.add("acquire")                     # `with <x>.<lock>:` blocks like acquire()
                    LOCK_ATTRS.add(it.context_expr.attr)
        if isinstance(n, ast.Call):
            f = n.func
            nm = f.attr if isinstance(f, ast.Attribute) else (f.id if isinstance(f, ast.Name) else None)
            if nm:
                out.add(nm)
    return out


def _methods(cls):
    return {k: v for k, v in vars(cls).items() if inspect.isfunction(v)}


def _plain(cls, k):
    """name as written in source: private methods are stored mangled (_Cls__name) but called as __name"""
    pre = "_" + cls.__name__ + "__"
    return "__" + k[len(pre):] if k.startswith(pre) else k


def yielding_names():
    names = set(ROOTS)
    table = {}
    for cls in CLASSES:
        for k, fn in _methods(cls).items():
            table[(cls, k)] = _calls(fn)
    changed = True
    while changed:
        changed = False
        for (cls, k), called in table.items():
            plain = _plain(cls, k)
            if plain not in names and called & names:
                names.add(plain)
                changed = True
    return names


class CoTime:
    """time module as seen by coroutinised code: sleep is a preemption point.  A state-machine tick pause resumes when the
    node has work queued (or at quiescence) - idle ticks do nothing observable, scheduling them freely only multiplies
    schedules (stated assumption)."""
    work = None

    @staticmethod
    def sleep(seconds):
        def g():
            if CoTime.work is None or seconds >= 1:
                yield
            else:
                yield Timed(CoTime.work)
        return _op(g())


_BUILT = {}


def build(lines=False):
    """-> dict of coroutinised subclasses, keyed by the real class"""
    line_methods = LINE_METHODS if lines is True else set(lines or ())       # True: the default set; or an explicit list
    key = tuple(sorted(line_methods))
    if key in _BUILT:
        return _BUILT[key]
    names = yielding_names()
    out = {}

    def co_body(cls):
        body = {}
        for k, fn in _methods(cls).items():
            plain = _plain(cls, k)
            if plain in names:
                body[k] = CS.coroutinize(fn, names, lines=(plain in line_methods), mangle=cls.__name__, rebind={"time": CoTime},
                                               locks=LOCK_ATTRS)
        return body
    bodies = {cls: co_body(cls) for cls in CLASSES}
    for cls in CLASSES:
        body = {}
        for base in reversed(cls.__mro__):
            if base in bodies:
                body.update(bodies[base])
        out[cls] = type("Co" + cls.__name__, (cls,), body)
    out["names"] = names
    _BUILT[key] = out
    return out


class CoSocket:
    def __init__(self):
        self.inbox, self.sent, self.send_plan = [], [], []
        self.peer_closed = self.recv_error = self.closed = False

    def recv(self, n):
        if self.recv_error:
            raise ConnectionResetError("reset")
        if self.inbox:
            return self.inbox.pop(0)
        if self.peer_closed:
            return b""
        raise BlockingIOError()

    def send(self, b):
        if self.closed:
            raise OSError(9, "bad file descriptor")
        if len(b) == 0:
            return 0
        k = self.send_plan.pop(0) if self.send_plan else None
        if k == -1:
            raise BlockingIOError()
        if k is None or k >= len(b):
            k = len(b)
        self.sent.append(b[:k])
        return k

    def close(self):
        self.closed = True

    def readable(self):
        return bool(self.inbox) or self.peer_closed or self.recv_error


class _Key:
    def __init__(self, fileobj, data):
        self.fileobj, self.data = fileobj, data


class CoSelector:
    """level-triggered; select() blocks (with the transport's timeout) until something registered is ready"""

    def __init__(self):
        self.reg = {}
        self.closed = False

    def register(self, sock, mask, data=None):
        self.reg[id(sock)] = (sock, mask, data)

    def modify(self, sock, mask, data=None):
        if id(sock) not in self.reg:
            raise KeyError(sock)
        self.reg[id(sock)] = (sock, mask, data)

    def unregister(self, sock):
        if id(sock) not in self.reg:
            raise KeyError(sock)
        del self.reg[id(sock)]

    def get_map(self):
        return dict(self.reg)

    def close(self):
        self.closed = True

    def _ready(self):
        out = []
        for sock, mask, data in list(self.reg.values()):
            r = 0
            if mask & selectors.EVENT_WRITE:
                r |= selectors.EVENT_WRITE
            if mask & selectors.EVENT_READ and sock.readable():
                r |= selectors.EVENT_READ
            if r:
                out.append((_Key(sock, data), r))
        return out

    def select(self, timeout=None):
        def g():
            yield Timed(lambda: bool(self._ready()))
            return self._ready()
        return _op(g())


class CoNode:
    """a client/server association in state Open on coroutinised real code and stand-in primitives"""

    def __init__(self, role="CLIENT", lines=False, watchdog=10 ** 6):
        from vf.standin import diameter, _forget_identifiers
        K = build(lines)
        self.K = K
        import copy
        self.d = copy.copy(diameter(role, 1, watchdog))      # a private (shallow) copy: the cached object stays untouched
        _forget_identifiers()
        self.d._base = self.d.get_base_messages()
        self.d.__class__ = K[S.Diameter]
        a = S.DiameterAssociation.__new__(K[S.DiameterAssociation])
        S.DiameterAssociation.__init__(a, self.d._connection, self.d._base)
        a._recv_messages, a._send_messages = HQueue(), HQueue()
        a.postprocess_recv_messages, a.postprocess_recv_messages_ready = HQueue(), HEvent()
        a.postprocess_recv_messages_lock, a.lock = HLock(), HLock()
        tcls = K[T.TcpClient] if role == "CLIENT" else K[T.TcpServer]
        t = T.TcpConnection.__new__(tcls)
        T.TcpConnection.__init__(t, "10.0.0.2", 3868)
        t.selector.close()
        self.sock, self.sel = CoSocket(), CoSelector()
        t.sock, t.selector = self.sock, self.sel
        if role != "CLIENT":
            t.server_sock, t.server_selector = CoSocket(), CoSelector()
            t.server_selector.register(t.server_sock, selectors.EVENT_READ)
        t._recv_data_available, t.write_mode_on, t.read_mode_on, t.lock = HEvent(), HEvent(), HEvent(), HLock()
        for name in LOCK_ATTRS:                       # every lock the current source takes with `with`
            if isinstance(getattr(t, name, None), type(T.threading.Lock())):
                setattr(t, name, HLock())
            if isinstance(getattr(a, name, None), type(T.threading.Lock())):
                setattr(a, name, HLock())
        t.is_connected = True
        t.events = []
        self.sel.register(self.sock, selectors.EVENT_READ)
        a.transport = t
        self.assoc, self.transport = a, t
        psm = SM.PeerStateMachine.__new__(K[SM.PeerStateMachine])
        SM.PeerStateMachine.__init__(psm, a)
        names = {CLOSED: SM.Closed, WAIT_CONN_ACK: SM.WaitConnAck, WAIT_I_CEA: SM.WaitInitiatorCEA, OPEN: SM.Open, WAIT_RETURNS: SM.WaitReturns,
                 WAIT_CONN_ACK_ELECT: SM.WaitConnAckElect, CLOSING: SM.Closing}
        psm.states = {k: K[c](a) for k, c in names.items()}
        psm.current_state = psm.states[OPEN]
        psm.current_state.name = OPEN
        psm.is_running = True
        a.state_is_active = True
        self.psm = psm
        self.d._association, self.d._peer_state_machine = a, psm
        CoTime.work = lambda: (not a._recv_messages.empty() or not a._send_messages.empty() or not a.state_is_active
                               or (a.transport is not None and a.transport._stop_threads))

    # thread bodies (generators)
    def reader(self):
        return self.transport._run()

    def worker(self):
        return self.assoc.recv_message_from_queue()

    def machine(self):
        return getattr(self.psm, "_PeerStateMachine__start")()

    def state(self):
        return self.d.get_current_state()
