"""E3 node: the real transport / association / state-machine methods re-compiled from the current source as coroutines.

Which methods become coroutines is computed, not listed: starting from the blocking primitives
{acquire, wait, get, select, sleep} the set of "yielding" method names is closed under "calls a yielding name" over the
classes that make up a connection (fixpoint on the ASTs read with inspect.getsource at run time).  Every such method is
coroutinised (vf.cosched.coroutinize) and bound on dynamically created SUBCLASSES of the real classes; everything else
stays the untouched real code.  Objects are wired with stand-in Lock/Event/Queue/selector/socket.
"""
import ast
import inspect
import selectors
import textwrap
import types

from vf import cosched as CS
from vf.cosched import HLock, HEvent, HQueue, Timed, _op
from vf.h import HarnessError

import bromelia.transport as T
import bromelia.setup as S
import bromelia.statemachine as SM
from bromelia.config import CLOSED, WAIT_CONN_ACK, WAIT_I_CEA, OPEN, CLOSING, WAIT_RETURNS, WAIT_CONN_ACK_ELECT

T.random = types.SimpleNamespace(choice=lambda seq: seq[0])
ROOTS = {"acquire", "wait", "get", "select", "sleep"}
STATE_CLASSES = [SM.Closed, SM.WaitConnAck, SM.WaitInitiatorCEA, SM.Open, SM.WaitReturns, SM.WaitConnAckElect, SM.Closing]
CLASSES = [T.TcpConnection, T.TcpClient, T.TcpServer, S.DiameterAssociation, S.Diameter, SM.State, SM.PeerStateMachine] + STATE_CLASSES
#: methods whose every statement gets a preemption point in the 'lines' variants (unlocked shared state lives here)
LINE_METHODS = {"read", "_read", "write", "_write", "recv_message_from_queue", "_run", "_set_selector_events_mask", "send_message_from_queue",
                "get_message", "get_postprocess_recv_message", "notify_postprocess_message", "close", "set_closed_state"}


LOCK_ATTRS = set()


def _calls(fn):
    try:
        tree = ast.parse(textwrap.dedent(inspect.getsource(fn)))
    except (OSError, TypeError, SyntaxError):
        return set()
    out = set()
    for n in ast.walk(tree):
        if isinstance(n, ast.With):
            for it in n.items:
                if isinstance(it.context_expr, ast.Attribute) and it.optional_vars is None:
                    out.add("acquire")                     # `with <x>.<lock or condition>:` blocks like acquire()
                    if "lock" in it.context_expr.attr:
                        LOCK_ATTRS.add(it.context_expr.attr)
        if isinstance(n, ast.Call):
            f = n.func
            nm = f.attr if isinstance(f, ast.Attribute) else (f.id if isinstance(f, ast.Name) else None)
            if nm:
                out.add(nm)
    return out


def _methods(cls):
    return {k: v for k, v in vars(cls).items() if inspect.isfunction(v)}


def _plain(cls, k):
    """name as written in source: private methods are stored mangled (_Cls__name) but called as __name"""
    pre = "_" + cls.__name__ + "__"
    return "__" + k[len(pre):] if k.startswith(pre) else k


def yielding_names(extra=()):
    names = set(ROOTS) | set(extra)
    table = {}
    for cls in CLASSES:
        for k, fn in _methods(cls).items():
            table[(cls, k)] = _calls(fn)
    changed = True
    while changed:
        changed = False
        for (cls, k), called in table.items():
            plain = _plain(cls, k)
            if plain not in names and called & names:
                names.add(plain)
                changed = True
    return names


class CoTime:
    """time module as seen by coroutinised code: sleep is a preemption point.  A state-machine tick pause resumes when the
    node has work queued (or at quiescence) - idle ticks do nothing observable, scheduling them freely only multiplies
    schedules (stated assumption)."""
    work = None
    polite = False        # delay-bounded harnesses: a sleeping thread lets every other runnable thread go first

    @staticmethod
    def sleep(seconds):
        def g():
            if CoTime.polite and (CoTime.work is None or seconds >= 1 or CoTime.work()):
                yield CS.OTHER
            elif CoTime.work is None or seconds >= 1:
                yield
            else:
                yield Timed(CoTime.work)
        return _op(g())


_BUILT = {}


def build(lines=False, points=()):
    """-> dict of coroutinised subclasses, keyed by the real class.  `points`: names of non-blocking calls (e.g. 'send') in
    front of which a pure preemption point is inserted - used to make polling loops around them schedulable"""
    line_methods = LINE_METHODS if lines is True else set(lines or ())       # True: the default set; or an explicit list
    key = (tuple(sorted(line_methods)), tuple(sorted(points)))
    if key in _BUILT:
        return _BUILT[key]
    names = yielding_names(points) - set(points)
    out = {}

    def co_body(cls):
        body = {}
        for k, fn in _methods(cls).items():
            plain = _plain(cls, k)
            if plain in names:
                body[k] = CS.coroutinize(fn, names, lines=(plain in line_methods), mangle=cls.__name__, rebind={"time": CoTime},
                                               locks=LOCK_ATTRS, points=points, owner=cls)
        return body
    bodies = {cls: co_body(cls) for cls in CLASSES}
    CS.SUPER_BODIES.clear()
    CS.SUPER_BODIES.update(bodies)
    for cls in CLASSES:
        body = {}
        for base in reversed(cls.__mro__):
            if base in bodies:
                body.update(bodies[base])
        out[cls] = type("Co" + cls.__name__, (cls,), body)
    out["names"] = names
    _BUILT[key] = out
    return out


class CoSocket:
    def __init__(self):
        self.inbox, self.sent, self.send_plan = [], [], []
        self.peer_closed = self.recv_error = self.closed = False
        self.listening, self.pending, self.connect_result = False, [], 0

    # set-up calls (TcpClient.start / TcpServer.start)
    def setblocking(self, flag):
        pass

    def setsockopt(self, *a):
        pass

    def bind(self, addr):
        pass

    def listen(self, *a):
        self.listening = True

    def connect_ex(self, addr):
        return self.connect_result

    def accept(self):
        if not self.pending:
            raise BlockingIOError()
        return self.pending.pop(0), ("10.0.0.2", 40000)

    def recv(self, n):
        if self.recv_error:
            raise ConnectionResetError("reset")
        if self.inbox:
            return self.inbox.pop(0)
        if self.peer_closed:
            return b""
        raise BlockingIOError()

    def send(self, b):
        if self.closed:
            raise OSError(9, "bad file descriptor")
        if self.send_plan and isinstance(self.send_plan[0], str):
            k = self.send_plan[0]
            if k != "pipe":                      # 'pipe' stays: every later send() fails the same way
                self.send_plan.pop(0)
            raise {"refused": ConnectionRefusedError(111, "Connection refused"), "pipe": BrokenPipeError(32, "Broken pipe"),
                   "inprogress": BlockingIOError(11, "Resource temporarily unavailable")}[k]
        if len(b) == 0:
            return 0
        k = self.send_plan.pop(0) if self.send_plan else None
        if k == -1:
            raise BlockingIOError()
        if k is None or k >= len(b):
            k = len(b)
        self.sent.append(b[:k])
        return k

    def shutdown(self, how):
        # a socket whose connection was reset or never established is no longer connected: ENOTCONN (Linux); after an orderly
        # FIN from the peer it still is (CLOSE_WAIT) and shutdown succeeds
        if self.closed:
            raise OSError(9, "Bad file descriptor")
        if self.recv_error or getattr(self, "connect_result", 0) not in (0, 115) or any(isinstance(x, str) for x in self.send_plan):
            raise OSError(107, "Transport endpoint is not connected")
        self.shut = True

    def close(self):
        self.closed = True

    def readable(self):
        if self.listening:
            return bool(self.pending)
        return bool(self.inbox) or self.peer_closed or self.recv_error


class _Key:
    def __init__(self, fileobj, data):
        self.fileobj, self.data = fileobj, data


class CoSelector:
    """level-triggered; select() blocks (with the transport's timeout) until something registered is ready"""

    def __init__(self):
        self.reg = {}
        self.closed = False
        self.nothing_to_write = None

    def register(self, sock, mask, data=None):
        self.reg[id(sock)] = (sock, mask, data)

    def modify(self, sock, mask, data=None):
        if id(sock) not in self.reg:
            raise KeyError(sock)
        self.reg[id(sock)] = (sock, mask, data)

    def unregister(self, sock):
        if id(sock) not in self.reg:
            raise KeyError(sock)
        del self.reg[id(sock)]

    def get_map(self):
        return dict(self.reg)

    def close(self):
        self.closed = True

    def _ready(self):
        out = []
        for sock, mask, data in list(self.reg.values()):
            r = 0
            if mask & selectors.EVENT_WRITE and not getattr(sock, "listening", False):      # a listening socket is never writable
                r |= selectors.EVENT_WRITE
            if mask & selectors.EVENT_READ and sock.readable():
                r |= selectors.EVENT_READ
            if r:
                out.append((_Key(sock, data), r))
        return out

    def select(self, timeout=None):
        def g():
            r = self._ready()
            if r and self.nothing_to_write is not None and all(m == selectors.EVENT_WRITE and k.data is None for k, m in r) \
                    and self.nothing_to_write():
                # writable, but nothing to write and nothing to read: the real loop spins through effect-free passes until
                # another thread changes something - one pass, then the others get the processor (fair scheduling of a spin)
                yield CS.OTHER
                return r
            yield Timed(lambda: bool(self._ready()))
            return self._ready()
        return _op(g())


class CoNode:
    """a client/server association in state Open on coroutinised real code and stand-in primitives"""

    def __init__(self, role="CLIENT", lines=False, watchdog=10 ** 6, state=OPEN, points=(), reuse=None):
        from vf.standin import diameter, _forget_identifiers
        K = build(lines, points)
        self.K = K
        self._prims = {}
        import copy
        if reuse is not None:
            self.d = reuse.d                                      # the same node object started again
        else:
            self.d = copy.copy(diameter(role, 1, watchdog))      # a private (shallow) copy: the cached object stays untouched
            _forget_identifiers()
            self.d._base = self.d.get_base_messages()
            self.d.__class__ = K[S.Diameter]
        a = S.DiameterAssociation.__new__(K[S.DiameterAssociation])
        S.DiameterAssociation.__init__(a, self.d._connection, self.d._base)
        a._recv_messages, a._send_messages = HQueue(), HQueue()
        a.postprocess_recv_messages, a.postprocess_recv_messages_ready = HQueue(), HEvent()
        a.postprocess_recv_messages_lock, a.lock = HLock(), HLock()
        tcls = K[T.TcpClient] if role == "CLIENT" else K[T.TcpServer]
        t = T.TcpConnection.__new__(tcls)
        T.TcpConnection.__init__(t, "10.0.0.2", 3868)
        t.selector.close()
        self.sock, self.sel = CoSocket(), CoSelector()
        t.sock, t.selector = self.sock, self.sel
        self.sel.nothing_to_write = lambda: not t.data_stream and not t._send_buffer
        if role != "CLIENT":
            t.server_sock, t.server_selector = CoSocket(), CoSelector()
            t.server_selector.register(t.server_sock, selectors.EVENT_READ)
        t._recv_data_available, t.write_mode_on, t.read_mode_on, t.lock = HEvent(), HEvent(), HEvent(), HLock()
        for name in LOCK_ATTRS:                       # every lock the current source takes with `with`
            if isinstance(getattr(t, name, None), type(T.threading.Lock())):
                setattr(t, name, HLock())
            if isinstance(getattr(a, name, None), type(T.threading.Lock())):
                setattr(a, name, HLock())
        CS.standinize(t, self._prims)                 # any further real primitive the current tree keeps on these objects
        CS.standinize(a, self._prims)
        t.is_connected = True
        t.events = []
        # Open / Closed(server, connection accepted): registered for READ; a client that has just called connect: READ|WRITE
        self.sel.register(self.sock, selectors.EVENT_READ | (selectors.EVENT_WRITE if state == WAIT_CONN_ACK else 0))
        a.transport = t
        self.assoc, self.transport = a, t
        psm = SM.PeerStateMachine.__new__(K[SM.PeerStateMachine])
        SM.PeerStateMachine.__init__(psm, a)
        names = {CLOSED: SM.Closed, WAIT_CONN_ACK: SM.WaitConnAck, WAIT_I_CEA: SM.WaitInitiatorCEA, OPEN: SM.Open, WAIT_RETURNS: SM.WaitReturns,
                 WAIT_CONN_ACK_ELECT: SM.WaitConnAckElect, CLOSING: SM.Closing}
        psm.states = {k: K[c](a) for k, c in names.items()}
        psm.current_state = psm.states[state]
        psm.current_state.name = state
        psm.is_running = True
        a.state_is_active = (state == OPEN)
        self.psm = psm
        self.d._association, self.d._peer_state_machine = a, psm
        CoTime.polite = False
        CoTime.work = lambda: (not a._recv_messages.empty() or not a._send_messages.empty()
                               or (not a.state_is_active and isinstance(psm.current_state, SM.Open))
                               or isinstance(psm.current_state, SM.WaitConnAck)
                               or (a.transport is not None and a.transport._stop_threads))

    # thread bodies (generators)
    def reader(self):
        return self.transport._run()

    def worker(self):
        return self.assoc.recv_message_from_queue()

    def machine(self):
        return getattr(self.psm, "_PeerStateMachine__start")()

    def state(self):
        return self.d.get_current_state()


# ------------------------------------------------------------------ whole life from Diameter.start()
class _Mod:
    """a module seen through a few overridden names (everything else is the real module's)"""

    def __init__(self, real, **over):
        self.__dict__["_real"] = real
        self.__dict__.update(over)

    def __getattr__(self, k):
        return getattr(self._real, k)


_REAL = {}


def _real_module(holder, name):
    """the real module bound to `name` in module `holder` (remembered before the first substitution)"""
    key = (holder.__name__, name)
    if key not in _REAL:
        cur = getattr(holder, name)
        _REAL[key] = getattr(cur, "_real", cur)
    return _REAL[key]


class CoBoot:
    """A node object driven from Diameter.start(): the REAL start() wiring runs - Diameter.start, PeerStateMachine.start,
    DiameterAssociation.start, TcpClient/TcpServer.start and run, every Thread(...).start() in it - on the coroutinised
    subclasses.  Substituted: socket.socket (CoSocket whose connect_ex() result is a grid parameter; a listening CoSocket
    with a queue of pending connections), selectors.DefaultSelector (CoSelector), threading.Thread (start() spawns the
    target generator into the scheduler), every Lock/Event/Condition/Queue the constructors create (vf.cosched.standinize)."""

    THREAD_NAMES = {"transport_layer_thread": "X", "recv_message_monitor": "W"}

    def __init__(self, role, sched, lines=False, points=(), watchdog=10 ** 6, connect_results=(115,), send_plans=((),)):
        from vf.standin import diameter, _forget_identifiers
        import copy
        K = self.K = build(lines, points)
        self.role, self.sched = role, sched
        self.connect_results, self.send_plans = list(connect_results), [list(p) for p in send_plans]
        self.socks, self.selectors, self.assocs, self.psms, self.transports = [], [], [], [], []
        self.listeners = []
        self.threads, self.crashed, self._prims = [], {}, {}
        self.d = copy.copy(diameter(role, 1, watchdog))
        _forget_identifiers()
        self.d._base = self.d.get_base_messages()
        self.d._association = self.d._peer_state_machine = None
        self.d.__class__ = K[S.Diameter]
        boot = self

        # ---- threads
        class Thread:
            def __init__(self, group=None, target=None, name=None, args=(), kwargs=None, daemon=None):
                self.target, self.name, self.args, self.kwargs = target, name or "thread", args, kwargs or {}

            def start(self):
                gen = self.target(*self.args, **self.kwargs)
                if not hasattr(gen, "send"):
                    raise HarnessError(f"thread body {self.name} is not a coroutine (it ran to completion inside start())")
                short = CoBoot.THREAD_NAMES.get(self.name, "S" if self.name.endswith("_psm_thread") else "T")
                n = sum(1 for x in boot.threads if x.rstrip("0123456789") == short)
                short = short if n == 0 else f"{short}{n + 1}"
                boot.threads.append(short)
                boot.sched.spawn(short, boot._guard(short, gen), daemon=True)
                return CS._done()          # `start` is a yielding name: a transformed caller drives this no-op

            def join(self, timeout=None):
                raise HarnessError("Thread.join in the code under test is not modelled")
        over = {mod: {"threading": _Mod(_real_module(mod, "threading"), Thread=Thread)} for mod in (T, S, SM)}

        # ---- sockets and selectors
        def mk_socket(*a, **k):
            if role != "CLIENT":                 # a server only ever creates listening sockets; connections come from accept()
                s = CoSocket()
                boot.listeners.append(s)
                return s
            s = CoSocket()
            i = len(boot.socks)
            s.connect_result = boot.connect_results[min(i, len(boot.connect_results) - 1)]
            s.send_plan = list(boot.send_plans[min(i, len(boot.send_plans) - 1)])
            boot.socks.append(s)
            return s

        def mk_selector():
            sel = CoSelector()
            boot.selectors.append(sel)
            return sel
        over[T]["socket"] = _Mod(_real_module(T, "socket"), socket=mk_socket)
        over[T]["selectors"] = _Mod(_real_module(T, "selectors"), DefaultSelector=mk_selector)

        # ---- objects created by start()
        def mk_transport(real_cls):
            def make(ip, port):
                t = real_cls.__new__(K[real_cls])
                real_cls.__init__(t, ip, port)
                CS.standinize(t, boot._prims)
                t.selector.nothing_to_write = lambda: not t.data_stream and not t._send_buffer
                t.events = []
                boot.transports.append(t)
                return t
            return make
        over[S]["TcpClient"], over[S]["TcpServer"] = mk_transport(T.TcpClient), mk_transport(T.TcpServer)

        def mk_assoc(conn, base):
            a = _RealAssoc.__new__(K[_RealAssoc])
            _RealAssoc.__init__(a, conn, base)
            CS.standinize(a, boot._prims)
            boot.assocs.append(a)
            return a

        def mk_psm(assoc):
            psm = _RealPsm.__new__(K[_RealPsm])
            _RealPsm.__init__(psm, assoc)
            real_states = dict(psm.states)
            psm.states = {k: K[type(v)](assoc) for k, v in real_states.items()}
            psm.current_state = psm.states[real_states_key(real_states, psm.current_state)]
            boot.psms.append(psm)
            return psm

        def real_states_key(states, cur):
            for k, v in states.items():
                if v is cur:
                    return k
            raise HarnessError("current state not among the states")
        over[S]["DiameterAssociation"], over[S]["PeerStateMachine"] = mk_assoc, mk_psm
        self._patch(over)
        CoTime.polite = False
        CoTime.work = self._work

    def _patch(self, over):
        """bind the overrides in the real modules AND in the globals of every coroutinised method that came from them (those
        were compiled against a snapshot of the module globals)"""
        self._undo = []
        for mod, names in over.items():
            for k, v in names.items():
                self._undo.append((mod.__dict__, k, mod.__dict__.get(k)))
                mod.__dict__[k] = v
        seen = set()
        for cls in self.K.values():
            if not isinstance(cls, type):
                continue
            for f in vars(cls).values():
                orig = getattr(f, "__coro_of__", None)
                if orig is None or id(f.__globals__) in seen:
                    continue
                seen.add(id(f.__globals__))
                for mod, names in over.items():
                    if orig.__module__ == mod.__name__:
                        for k, v in names.items():
                            self._undo.append((f.__globals__, k, f.__globals__.get(k)))
                            f.__globals__[k] = v

    def connect(self):
        """peer side: a new inbound connection on the latest listening socket; -> the server-side CoSocket"""
        c = CoSocket()
        self.listeners[-1].pending.append(c)
        self.socks.append(c)
        return c

    def _work(self):
        a, psm = self.d._association, self.d._peer_state_machine
        if a is None or psm is None:
            return False
        return (not a._recv_messages.empty() or not a._send_messages.empty()
                or (not a.state_is_active and isinstance(psm.current_state, SM.Open))
                or isinstance(psm.current_state, (SM.WaitConnAck,)) or (isinstance(psm.current_state, SM.Closed) and self.role == "CLIENT" and psm.is_running)
                or (a.transport is not None and a.transport._stop_threads))

    def _guard(self, name, gen):
        import bromelia.exceptions as E
        lib = tuple(o for o in vars(E).values() if isinstance(o, type) and issubclass(o, BaseException) and o.__module__ == E.__name__)
        try:
            yield from gen
        except (lib + (Exception,)) as e:
            __import__('vf.h').h.reraise_if_harness(e)
            self.crashed[name] = f"{type(e).__name__}: {e}"

    def restore(self):
        for d, k, old in reversed(self._undo):
            d[k] = old
        self._undo = []

    # accessors for the oracle (the connection made by the latest start())
    @property
    def assoc(self):
        return self.assocs[-1] if self.assocs else None

    @property
    def transport(self):
        return self.transports[-1] if self.transports else None

    @property
    def sock(self):
        return self.socks[-1] if self.socks else None

    def state(self):
        return self.d.get_current_state()


_RealAssoc, _RealPsm = S.DiameterAssociation, SM.PeerStateMachine
