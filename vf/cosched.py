"""E3: real methods as generator coroutines under a scheduler whose choices are solver integers (DESIGN 2.4).

coroutinize(fn, names)   re-reads inspect.getsource(fn) and rewrites every call whose attribute/function name is in
                         `names` into `(yield from <call>)`; optional `lines=True` adds a bare `yield` (pure preemption
                         point) in front of every statement.  The result is compiled in fn.__globals__ (optionally with a
                         few names rebound) and bound by the harness onto a SUBCLASS of the real class.
H*                       stand-ins for Lock/Event/Queue/Barrier whose blocking operations are generators yielding either
                         None (preemption point) or a predicate ("resume me only when this holds").
Sched(choices)           at each step computes the runnable set; >1 runnable -> next element of `choices` picks;
                         exhausting `choices` prunes the path; nothing runnable while threads remain -> Deadlock.
A stand-in operation that was called but never driven (a generator created by an untransformed caller) is a harness
error, never a finding.
"""
import ast
import inspect
import textwrap

from vf.h import HarnessError, traced, P as _P


class Deadlock(Exception):
    def __init__(self, who):
        Exception.__init__(self, f"deadlock: blocked threads {who}")
        self.who = who


class Prune(Exception):
    """schedule bound exhausted (K decisions / P preemptions)"""


class _Yielder(ast.NodeTransformer):
    def __init__(self, names, lines, points=(), mangle=None, locks=()):
        self.names, self.lines, self.points = names, lines, set(points)
        self.mangle, self.locks = mangle, set(locks)
        self.hits = 0
        self.owner_arg = None

    def visit_Attribute(self, node):
        self.generic_visit(node)
        v = node.value
        if self.owner_arg and isinstance(v, ast.Call) and isinstance(v.func, ast.Name) and v.func.id == "super":
            # super().m  ->  the parent's m as the harness sees it: the coroutinised version if the parent's m was transformed
            return ast.Call(func=ast.Name(id="__vf_super", ctx=ast.Load()),
                            args=[ast.Name(id="__vf_owner", ctx=ast.Load()), ast.Name(id=self.owner_arg, ctx=ast.Load()), ast.Constant(value=node.attr)],
                            keywords=[])
        if self.mangle and node.attr.startswith("__") and not node.attr.endswith("__"):
            node.attr = f"_{self.mangle}{node.attr}"          # private names are mangled inside the class body
        return node

    def visit_With(self, node):
        # `with <x>.<lock>:` on a stand-in lock  ->  yield from <x>.<lock>.acquire(); try: body; finally: release()
        self.generic_visit(node)
        if len(node.items) == 1 and isinstance(node.items[0].context_expr, ast.Attribute) \
                and node.items[0].context_expr.attr in self.locks and node.items[0].optional_vars is None:
            lk = node.items[0].context_expr
            acq = ast.Expr(value=ast.YieldFrom(value=ast.Call(func=ast.Attribute(value=lk, attr="acquire", ctx=ast.Load()), args=[], keywords=[])))
            rel = ast.Expr(value=ast.Call(func=ast.Attribute(value=lk, attr="release", ctx=ast.Load()), args=[], keywords=[]))
            self.hits += 1
            return [acq, ast.Try(body=node.body, handlers=[], orelse=[], finalbody=[rel])]
        if len(node.items) == 1 and node.items[0].optional_vars is None and isinstance(node.items[0].context_expr, (ast.Attribute, ast.Name)):
            # any other `with <expr>:` - decided at run time: a stand-in primitive (Lock / RLock / Condition, whatever the attribute is
            # called) is acquired as a blocking operation of the scheduler, anything else keeps its with-statement
            self.nwith = getattr(self, "nwith", 0) + 1
            var = f"__cm{self.nwith}"
            bind = ast.Assign(targets=[ast.Name(id=var, ctx=ast.Store())], value=node.items[0].context_expr)
            test = ast.Call(func=ast.Name(id="getattr", ctx=ast.Load()),
                            args=[ast.Name(id=var, ctx=ast.Load()), ast.Constant(value="_vf_standin"), ast.Constant(value=False)], keywords=[])
            acq = ast.Expr(value=ast.YieldFrom(value=ast.Call(func=ast.Attribute(value=ast.Name(id=var, ctx=ast.Load()), attr="acquire", ctx=ast.Load()), args=[], keywords=[])))
            rel = ast.Expr(value=ast.Call(func=ast.Attribute(value=ast.Name(id=var, ctx=ast.Load()), attr="release", ctx=ast.Load()), args=[], keywords=[]))
            import copy as _copy
            plain = ast.With(items=[ast.withitem(context_expr=ast.Name(id=var, ctx=ast.Load()), optional_vars=None)], body=_copy.deepcopy(node.body))
            return [bind, ast.If(test=test, body=[acq, ast.Try(body=node.body, handlers=[], orelse=[], finalbody=[rel])], orelse=[plain])]
        return node

    def visit_Call(self, node):
        self.generic_visit(node)
        f = node.func
        if isinstance(f, ast.Name) and f.id == "super" and not node.args and not node.keywords and self.owner_arg:
            # zero-argument super() needs the __class__ cell of a class body; the method is re-compiled outside one
            node.args = [ast.Name(id="__vf_owner", ctx=ast.Load()), ast.Name(id=self.owner_arg, ctx=ast.Load())]
            return node
        nm = f.attr if isinstance(f, ast.Attribute) else (f.id if isinstance(f, ast.Name) else None)
        if isinstance(f, ast.Call) and isinstance(f.func, ast.Name) and f.func.id == "__vf_super":
            nm = f.args[2].value                     # super().m(...) after the rewrite above
        if nm in self.names:
            self.hits += 1
            return ast.YieldFrom(value=node)
        if nm in self.points:
            # a pure preemption point in front of a shared-state access: ((yield from __pp()) or <call>)
            self.hits += 1
            pp = ast.YieldFrom(value=ast.Call(func=ast.Name(id="__pp", ctx=ast.Load()), args=[], keywords=[]))
            return ast.BoolOp(op=ast.Or(), values=[pp, node])
        return node

    def _with_lines(self, body):
        out = []
        for st in body:
            if self.lines and not isinstance(st, (ast.FunctionDef, ast.ClassDef)):
                out.append(ast.Expr(value=ast.Yield(value=None)))
            out.append(st)
        return out

    def generic_visit(self, node):
        super().generic_visit(node)
        if self.lines:
            for field in ("body", "orelse", "finalbody"):
                b = getattr(node, field, None)
                if isinstance(b, list) and b and isinstance(b[0], ast.stmt) and not isinstance(node, ast.Module):
                    setattr(node, field, self._with_lines(b))
        return node

    def visit_Lambda(self, node):
        return node       # never rewrite inside lambdas (they cannot yield)


def _pp():
    yield
    return None


SUPER_BODIES = {}       # real class -> {method name: coroutinised function}; filled by whoever builds coroutinised subclasses


def _vf_super(owner, obj, name):
    for base in owner.__mro__[1:]:
        if name in vars(base):
            f = SUPER_BODIES.get(base, {}).get(name) or vars(base)[name]
            return f.__get__(obj, type(obj))
    raise AttributeError(name)


def coroutinize(fn, names, glb=None, lines=False, rebind=None, points=(), mangle=None, locks=(), owner=None):
    src = textwrap.dedent(inspect.getsource(fn))
    tree = ast.parse(src)
    fdef = tree.body[0]
    if not isinstance(fdef, ast.FunctionDef):
        raise HarnessError(f"cannot coroutinize {fn!r}")
    names = set(names)
    if mangle:
        names |= {f"_{mangle}{n}" for n in list(names) if n.startswith("__") and not n.endswith("__")}
    y = _Yielder(names, lines, points, mangle, locks)
    if owner is not None and fdef.args.args:
        y.owner_arg = fdef.args.args[0].arg          # `self`
    y.visit(fdef)
    fdef.decorator_list = []
    # make it a generator even if nothing inside yields
    fdef.body.insert(0, ast.parse("if 0: yield").body[0])
    ast.fix_missing_locations(tree)
    g = dict(fn.__globals__) if glb is None else glb
    g = dict(g)
    g["__pp"] = _pp
    if owner is not None:
        g["__vf_owner"] = owner
        g["__vf_super"] = _vf_super
    if rebind:
        g.update(rebind)
    ns = {}
    exec(compile(tree, f"<coro:{fn.__qualname__}>", "exec"), g, ns)
    out = ns[fn.__name__]
    out.__coro_of__ = fn
    return out


def loop_body_function(fn, name=None):
    """compile the body of the first `while` loop of fn as a plain function with the same parameters (one 'tick')"""
    src = textwrap.dedent(inspect.getsource(fn))
    fdef = ast.parse(src).body[0]
    loop = None
    for node in ast.walk(fdef):
        if isinstance(node, ast.While):
            loop = node
            break
    if loop is None:
        raise HarnessError(f"no while loop in {fn!r}")
    class _B(ast.NodeTransformer):            # break/continue of that loop end the single iteration
        def visit_While(self, n):
            return n
        visit_For = visit_While

        def visit_Break(self, n):
            return ast.copy_location(ast.Return(value=ast.Constant(value="break")), n)

        def visit_Continue(self, n):
            return ast.copy_location(ast.Return(value=ast.Constant(value="continue")), n)
    loop.body = [_B().visit(st) for st in loop.body]
    new = ast.FunctionDef(name=name or fn.__name__ + "__tick", args=fdef.args, body=loop.body, decorator_list=[], returns=None,
                          type_comment=None, type_params=[])
    mod = ast.Module(body=[new], type_ignores=[])
    ast.fix_missing_locations(mod)
    ns = {}
    exec(compile(mod, f"<tick:{fn.__qualname__}>", "exec"), dict(fn.__globals__), ns)
    return ns[new.name]


# ------------------------------------------------------------------ scheduler
_PENDING = []
_CUR = [None]          # name of the thread the scheduler is stepping (owner identity for re-entrant stand-in locks)


def _op(gen):
    """wrap a stand-in operation so that 'created but never driven' is detectable"""
    rec = [gen.__name__ if hasattr(gen, "__name__") else "op", False]
    _PENDING.append(rec)

    def runner():
        rec[1] = True
        r = yield from gen
        return r
    return runner()


class Sched:
    def __init__(self, choices, max_preempt=None, delays=None):
        self.delays = delays        # delay-bounded mode (Emmi/Qadeer/Rakamaric): deterministic non-preemptive round-robin
        self.delay_used = 0         # scheduler; each solver-chosen 'delay' skips the thread whose turn it is; <= delays skips
        self.rr = 0
        # grid-fixed prefix of decisions (driver.expand_splits) + the solver-chosen vector
        self.choices = list(_P.get("prefix") or []) + list(choices)
        self.i = 0
        self.threads = []
        self.max_preempt = max_preempt
        self.preempts = 0
        self.last = None
        self.trace = []
        self.stepped_aside = None
        self.max_steps = 4000
        self.settle = 6
        self.lazy = set()           # threads that only run once the rest of the system has settled (see run)
        self.finished = set()
        self.eager = set()          # threads that run as soon as they can (no scheduling choice): a stated reduction
        del _PENDING[:]

    def spawn(self, name, gen, enabled=None, daemon=False):
        t = [name, gen, enabled, daemon]
        self.threads.append(t)
        if getattr(self, "_live", None) is not None:       # started while the scheduler runs (a Thread(...).start() in the code)
            self._live.append(t)

    def pick(self, runnable):
        n = len(runnable)
        if n == 1:
            return 0
        # unary encoding over boolean choice variables: "run the first runnable thread? else the second? ..."
        # (n-1 booleans at most, every combination feasible, no redundant encodings)
        for v in range(n - 1):
            if self.i >= len(self.choices):
                self.pruned_by = "K"
                raise Prune()
            with traced():                  # the only place where a solver variable is read
                b = self.choices[self.i]
                self.i += 1
                if b:
                    return v
        return n - 1
        raise Prune()

    def pick_delay_bounded(self, runnable):
        """the running thread goes on while it can; otherwise the next runnable thread in spawn order (cyclic) gets its turn;
        while the delay budget lasts, a boolean solver variable per step may skip the thread whose turn it is"""
        n = len(self.threads)
        pos = {id(t): k for k, t in enumerate(self.threads)}
        if self.last is not None and any(x is self.last for x in runnable):
            start = pos[id(self.last)]
        else:
            start = self.rr
        cands = sorted(runnable, key=lambda x: (pos[id(x)] - start) % n)
        k = 0
        while self.delay_used < self.delays and k < len(cands) - 1:
            if self.i >= len(self.choices):
                self.pruned_by = "K"
                raise Prune()
            with traced():
                b = self.choices[self.i]
                self.i += 1
                if b:
                    break
            k += 1
            self.delay_used += 1
        t = cands[k]
        self.rr = (pos[id(t)] + 1) % n
        return t

    def prelude(self, names, max_steps=400):
        """deterministic set-up phase: step the named threads (first runnable first) until none of them can run;
        consumes no choice variables.  Used to reach a pre-state (e.g. 'both callers parked') cheaply."""
        self.results = getattr(self, "results", {})
        for _ in range(max_steps):
            cand = [t for t in self.threads if t[0] in names and t[1] is not None and
                    (t[2] is None or (not isinstance(t[2], Timed) and t[2]()) or (isinstance(t[2], Timed) and t[2].ready()))]
            if not cand:
                return
            t = cand[0]
            t[2] = None
            self.trace.append(t[0] + "'")
            try:
                _CUR[0] = t[0]
                req = next(t[1])
                if req is not None:
                    t[2] = req
            except StopIteration as s:
                self.results[t[0]] = s.value
                t[1] = None
            del _PENDING[:]
        raise HarnessError("prelude did not quiesce")

    def run(self):
        results = getattr(self, "results", {})
        live = self._live = [t for t in self.threads if t[1] is not None]
        steps = 0
        while any(not t[3] for t in live):
            steps += 1
            self._steps = steps
            if steps > self.max_steps:
                # a thread (or a set of threads) keeps running without the non-daemon threads ever finishing
                raise Deadlock(["livelock: %d steps, last %s" % (steps, "".join(x[0] for x in self.trace[-12:]))])
            runnable = [t for t in live if t[2] is None or (not isinstance(t[2], Timed) and t[2]()) or
                        (isinstance(t[2], Timed) and t[2].ready())]
            if not runnable:
                # quiescence: time passes, timed waits expire (timeouts have the lowest priority); if there is no timed wait
                # either, a polling thread that stepped aside (AfterOthers) goes on polling
                runnable = [t for t in live if isinstance(t[2], Timed)] or [t for t in live if isinstance(t[2], AfterOthers)]
                self.last = None           # every thread is blocked: whoever's timeout fires first, nobody is preempted
                self._idle = getattr(self, "_idle", 0) + 1
                if not runnable or self._idle > 20:
                    raise Deadlock([t[0] for t in live if not t[3]])
                if self.lazy:
                    # an observer thread runs only after the system has done nothing but time out for a while
                    others = [t for t in runnable if t[0] not in self.lazy]
                    if others and self._idle <= self.settle:
                        runnable = others
                    elif self._idle > self.settle:
                        lz = [t for t in runnable if t[0] in self.lazy]
                        runnable = lz or runnable
            eager = [x for x in runnable if x[0] in self.eager]
            if eager:
                t = eager[0]
            elif self.delays is not None:
                t = self.pick_delay_bounded(runnable)
            elif (self.max_preempt is not None and self.preempts >= self.max_preempt and self.last is not None
                  and any(x is self.last for x in runnable)):
                t = self.last              # preemption budget used up: the running thread keeps the processor (no choice consumed)
            elif (self.max_preempt is not None and self.preempts >= self.max_preempt and self.stepped_aside is not None
                  and any(x is not self.stepped_aside for x in runnable)):
                # preemption budget used up and the last thread gave way inside a polling loop: the next thread in spawn order
                # takes over (no choice consumed - the spinning thread's turn comes again after the others)
                t = [x for x in runnable if x is not self.stepped_aside][0]
            else:
                t = runnable[self.pick(runnable)]
            self.stepped_aside = None
            if self.last is not None and self.last is not t and any(x is self.last for x in runnable):
                self.preempts += 1
                if self.max_preempt is not None and self.preempts > self.max_preempt:
                    self.pruned_by = "P"
                    raise Prune()
            if not t[3] and not isinstance(t[2], Timed):
                self._idle = 0
            self.last = t
            self.trace.append(t[0])
            t[2] = None
            try:
                _CUR[0] = t[0]
                req = next(t[1])
                if req is OTHER:
                    # voluntary yield of a busy-wait iteration: not runnable again before another thread has taken a step
                    # (fair scheduling of an effect-free spin); switching away from it is not a preemption
                    t[2] = AfterOthers(self, steps)
                    self.last = None
                    self.stepped_aside = t
                elif req is not None:
                    t[2] = req
            except StopIteration as s:
                results[t[0]] = s.value
                live.remove(t)
                self.finished.add(t[0])
                self.last = None
            for rec in _PENDING:
                if not rec[1]:
                    raise HarnessError(f"stand-in operation {rec[0]} was created by an untransformed caller and never driven")
            del _PENDING[:]
        return results


class AfterOthers:
    """wait condition of a thread that yielded OTHER: true once any other thread has taken a step"""

    def __init__(self, sched, n):
        self.sched, self.n = sched, n

    def __call__(self):
        return self.sched._steps > self.n


OTHER = object()      # yielded by a stand-in whose real counterpart returns at once inside a polling loop


class Timed:
    """predicate of a wait with a timeout: ready when the condition holds; expires only at quiescence"""

    def __init__(self, cond):
        self.cond = cond

    def ready(self):
        return self.cond()

    def __call__(self):
        return self.cond()


# ------------------------------------------------------------------ stand-ins
class HLock:
    _vf_standin = True

    def __init__(self):
        self.owner = None
        self.count = 0

    def locked(self):
        return self.owner is not None

    def acquire(self, blocking=True, timeout=-1):
        def g():
            if not blocking:
                yield                              # try-lock: a preemption point, then succeed or give up at once
                if self.owner is None:
                    self.owner = True
                    return True
                return False
            if timeout is not None and timeout >= 0:
                yield Timed(lambda: self.owner is None)      # resumes when free, or by timeout at quiescence
                if self.owner is None:
                    self.owner = True
                    return True
                return False
            yield (lambda: self.owner is None)
            self.owner = True
            return True
        return _op(g())

    def release(self):
        if self.owner is None:
            raise RuntimeError("release unlocked lock")
        self.owner = None

    def __enter__(self):
        raise HarnessError("with-statement on a stand-in lock is not supported")


class HRLock:
    """re-entrant lock: owned by the scheduler thread that acquired it"""
    _vf_standin = True

    def __init__(self):
        self.owner = None
        self.count = 0

    def locked(self):
        return self.owner is not None

    def acquire(self, blocking=True, timeout=-1):
        def g():
            me = _CUR[0]
            if self.owner is not None and self.owner == me:
                self.count += 1
                return True
            if not blocking:
                yield
                if self.owner is None:
                    self.owner, self.count = _CUR[0], 1
                    return True
                return False
            yield (lambda: self.owner is None)
            self.owner, self.count = _CUR[0], 1
            return True
        return _op(g())

    def release(self):
        if self.owner is None:
            raise RuntimeError("cannot release un-acquired lock")
        self.count -= 1
        if self.count == 0:
            self.owner = None

    def __enter__(self):
        raise HarnessError("with-statement on a stand-in lock reached untransformed code")


def _done():
    return None
    yield


class HCondition:
    """threading.Condition: wait() releases the lock, parks the caller in FIFO order, re-acquires after a notify (or a timeout
    at quiescence); notify(n) wakes the n longest-waiting callers.  Spurious wake-ups are not modelled."""
    _vf_standin = True

    def __init__(self, lock=None):
        self.lock = lock if lock is not None else HRLock()
        self.waiters = []

    def acquire(self, *a, **k):
        return self.lock.acquire(*a, **k)

    def release(self):
        self.lock.release()

    def __enter__(self):
        raise HarnessError("with-statement on a stand-in condition reached untransformed code")

    def wait(self, timeout=None):
        def g():
            if self.lock.owner is None:
                raise RuntimeError("cannot wait on un-acquired lock")
            ticket = [False]
            self.waiters.append(ticket)
            saved = (self.lock.owner, self.lock.count)
            self.lock.owner, self.lock.count = None, 0
            if timeout is None:
                yield (lambda: ticket[0])
            else:
                yield Timed(lambda: ticket[0])
                if not ticket[0] and ticket in self.waiters:
                    self.waiters.remove(ticket)
            yield (lambda: self.lock.owner is None)
            self.lock.owner, self.lock.count = saved
            return ticket[0]
        return _op(g())

    def wait_for(self, predicate, timeout=None):
        def g():
            r = predicate()
            while not r:
                ok = yield from self.wait(timeout)
                r = predicate()
                if not ok and timeout is not None:
                    break
            return r
        return _op(g())

    def notify(self, n=1):
        for t in self.waiters[:n]:
            t[0] = True
        del self.waiters[:n]
        return _done()            # harmless if a transformed caller drives it with `yield from`

    def notify_all(self):
        return self.notify(len(self.waiters))


class HEvent:
    _vf_standin = True

    def __init__(self):
        self.flag = False

    def is_set(self):
        return self.flag

    def set(self):
        self.flag = True

    def clear(self):
        self.flag = False

    def wait(self, timeout=None):
        def g():
            if timeout is None:
                if self.flag:
                    yield OTHER                    # returns at once; a caller polling in a loop must not starve the others
                    return True
                yield (lambda: self.flag)
                return True
            yield Timed(lambda: self.flag)         # resumes when set, or by timeout once nothing else can run
            return self.flag
        return _op(g())


class _Dq(list):
    """the deque behind queue.Queue (Queue.queue), as far as code reaches into it"""

    def appendleft(self, x):
        self.insert(0, x)

    def popleft(self):
        return self.pop(0)


class HQueue:
    _vf_standin = True

    def __init__(self):
        self.items = _Dq()
        self.mutex = HLock()          # queue.Queue.mutex: code that reaches into Queue.queue takes it

    @property
    def queue(self):
        return self.items

    def put(self, x):
        self.items.append(x)

    def get(self):
        def g():
            yield (lambda: len(self.items) > 0)
            return self.items.pop(0)
        return _op(g())

    def get_nowait(self):
        return self.items.pop(0)

    def empty(self):
        return len(self.items) == 0

    def qsize(self):
        return len(self.items)


class HBarrier:
    def wait(self, timeout=None):
        def g():
            yield
            return 0
        return _op(g())

    def reset(self):
        pass


# ------------------------------------------------------------------ generic substitution of real primitives
import queue as _queue
import threading as _threading

_LOCK_T, _RLOCK_T = type(_threading.Lock()), type(_threading.RLock())


def standinize(obj, cache=None, class_level=True):
    """replace every attribute of `obj` that holds a real threading/queue primitive (Lock, RLock, Event, Condition, Barrier,
    Queue) by the corresponding stand-in - whatever the attribute is called, so a tree that renames a primitive or introduces a
    new one is still scheduled rather than blocking the harness process.  Class-level primitives (shared by all instances) map
    to ONE stand-in per `cache`."""
    cache = {} if cache is None else cache

    def conv(v):
        if id(v) in cache:
            return cache[id(v)][1]
        if isinstance(v, _threading.Event):
            n = HEvent()
            n.flag = v.is_set()
        elif isinstance(v, _threading.Condition):
            n = HCondition()
        elif isinstance(v, _RLOCK_T):
            n = HRLock()
        elif isinstance(v, _LOCK_T):
            n = HLock()
        elif isinstance(v, _threading.Barrier):
            n = HBarrier()
        elif isinstance(v, _queue.Queue):
            if not v.empty():
                raise HarnessError("standinize: non-empty real queue")
            n = HQueue()
        else:
            return None
        cache[id(v)] = (v, n)
        return n
    names = {}
    if class_level:
        for klass in reversed(type(obj).__mro__):
            for k, v in vars(klass).items():
                if not (k.startswith("__") and k.endswith("__")):
                    names[k] = v
    names.update(vars(obj))
    changed = []
    for k, v in names.items():
        n = conv(v)
        if n is not None:
            setattr(obj, k, n)
            changed.append(k)
    return changed
