"""Query scheduler, replay rule, known-findings handling and evidence writer.

A property module (props/cNN.py) exposes

    PROPERTY = "C18"
    LEVEL    = "model_checking" | "proof"
    def queries(tier, seed) -> list[Q]
    ASSUMPTIONS, BOUNDS, OUTSIDE = [...]    (strings, copied into the evidence file)

and the harness functions the queries name.  Each query is executed in fresh subprocesses
(vf.runq) against the *current* /repo working tree.
"""
import concurrent.futures as cf
import dataclasses
import importlib
import json
import os
import random
import subprocess
import sys
import time

HERE = os.path.dirname(os.path.dirname(os.path.abspath(__file__)))
REPO = os.environ.get("VF_REPO", "/repo")
PY = os.path.join(HERE, ".venv", "bin", "python")
EXIT_OK, EXIT_VIOLATION, EXIT_HARNESS = 0, 1, 3


@dataclasses.dataclass
class Q:
    qid: str
    fn: str
    params: dict = dataclasses.field(default_factory=dict)
    cto: int = 30           # CrossHair per-condition timeout (CPU seconds)
    pto: int = 15           # per-path timeout
    reach: bool = True      # run the reachability twin
    engine: str = "chx"     # chx (CrossHair on the real code) | py (function returns a result dict itself)
    module: str = ""        # defaults to the property module
    what: str = ""          # one line for humans
    split: int = 0          # E3: fix the first `split` scheduler decisions per sub-query (2^split sub-queries, run in parallel)


def _run(cmd, env, timeout):
    t0 = time.time()
    proc = subprocess.Popen(cmd, env=env, cwd=HERE, stdout=subprocess.PIPE, stderr=subprocess.PIPE, text=True,
                            start_new_session=True)
    try:
        so, se = proc.communicate(timeout=timeout)
    except subprocess.TimeoutExpired:
        try:
            os.killpg(proc.pid, 9)          # the query process and any solver it started
        except OSError:
            pass
        proc.communicate()
        return {"verdict": "timeout", "detail": f"outer timeout {timeout}s", "wall_s": round(time.time() - t0, 2)}
    p = subprocess.CompletedProcess(cmd, proc.returncode, so, se)
    line = p.stdout.strip().splitlines()[-1] if p.stdout.strip() else ""
    try:
        out = json.loads(line)
    except Exception:
        out = {"verdict": "harness-error", "detail": "no JSON from runq", "stderr": p.stderr[-3000:],
               "stdout": p.stdout[-500:], "rc": p.returncode}
    out.setdefault("wall_s", round(time.time() - t0, 2))
    if out.get("verdict") == "harness-error":
        out.setdefault("stderr", p.stderr[-3000:])
    return out


def _env(q, extra=None):
    env = dict(os.environ)
    env["VF_PARAMS"] = json.dumps(q.params)
    env["VF_REPO"] = REPO
    env["PYTHONPATH"] = HERE + os.pathsep + REPO
    env["PYTHONHASHSEED"] = "0"
    env["PYTHONDONTWRITEBYTECODE"] = "1"
    env.pop("VF_MODE", None)
    if extra:
        env.update(extra)
    return env


def runq(q, mode, call=None, extra_env=None, cto=None):
    cmd = [PY, "-m", "vf.runq", "--module", q.module, "--fn", q.fn, "--mode", mode,
           "--cto", str(cto or q.cto), "--pto", str(q.pto)]
    if call is not None:
        cmd += ["--call", call]
    outer = (cto or q.cto) * 2 + 90 if mode in ("check", "reach") else 120
    return _run(cmd, _env(q, extra_env), outer)


def run_py(q, extra_env=None):
    cmd = [PY, "-m", "vf.runpy", "--module", q.module, "--fn", q.fn]
    return _run(cmd, _env(q, extra_env), q.cto * 2 + 120)


# ---------------------------------------------------------------- known findings
def load_known(prop):
    path = os.path.join(HERE, "known_findings.json")
    if not os.path.exists(path):
        return []
    with open(path) as f:
        data = json.load(f)
    return [e for e in data.get("findings", []) if e.get("property") == prop]


def process_query(q, known_open):
    """-> result dict with 'status' in proved|violated|known|inconclusive|harness-error."""
    res = {"qid": q.qid, "fn": q.fn, "params": q.params, "what": q.what, "engine": q.engine}
    mine = [k for k in known_open if k.get("fn") == q.fn and
            all(q.params.get(a) == b for a, b in (k.get("params") or {}).items())]
    extra = {"VF_EXCLUDE": json.dumps([k["region"] for k in mine])} if mine else None
    res["known_lines"] = []
    for k in mine:
        r = runq(q, "replay", call=k["witness"])
        if r.get("verdict") == "fails":
            res["known_lines"].append(f"KNOWN-FINDING: property={k['property']} {k['id']}: {k['what']}")
        res.setdefault("known_replays", []).append({"id": k["id"], "verdict": r.get("verdict")})
        if k.get("whole_scenario") and r.get("verdict") == "fails":
            # the finding covers this scenario (grid point) as a whole: its witness still fails, nothing of the scenario is
            # left to check; the other grid points are checked as usual.  If the witness stops failing the query runs normally.
            res["status"] = "known"
            res["reason"] = f"scenario covered by open known finding {k['id']}"
            res["check"] = {"verdict": "known", "paths": 0, "wall_s": r.get("wall_s", 0)}
            return res
    if q.engine == "py":
        r = run_py(q, extra)
        res["check"] = r
        v = r.get("verdict")
        if v == "proved":
            res["status"] = "proved"
        elif v == "cex":
            res["status"] = "violated" if r.get("reproduced") else "harness-error"
            res["replay"] = r.get("replay")
        elif v == "harness-error":
            res["status"] = "harness-error"
        else:
            res["status"] = "inconclusive"
        res["reason"] = r.get("detail")
        return res
    with cf.ThreadPoolExecutor(2) as ex:
        fut_reach = ex.submit(runq, q, "reach", None, extra, min(q.cto, 45)) if q.reach else None
        r = runq(q, "check", extra_env=extra)
        reach = fut_reach.result() if fut_reach else None
    res["check"] = r
    v = r.get("verdict")
    if v == "cex":
        if not r.get("call"):
            res["status"] = "harness-error"
            res["reason"] = "counterexample without a call string: " + str(r.get("detail"))[:300]
            return res
        rp = runq(q, "replay", call=r["call"], extra_env=extra)
        res["replay"] = rp
        if rp.get("verdict") == "fails":
            res["status"] = "violated"
        elif rp.get("verdict") == "target-missing":
            res["status"] = "inconclusive"
            res["reason"] = f"harness target missing in this tree (no verdict on the property): {rp.get('detail')}"[:500]
        else:
            res["status"] = "harness-error"
            res["reason"] = f"counterexample does not reproduce natively ({rp.get('verdict')}): {r.get('detail')}"[:600]
        return res
    if v == "proved":
        res["status"] = "proved"
    elif v == "harness-error":
        res["status"] = "harness-error"
        res["reason"] = str(r.get("detail"))[:600] + " | " + str(r.get("stderr", ""))[-600:]
        return res
    else:
        res["status"] = "inconclusive"
        res["reason"] = f"{v}: {r.get('detail', '')}"[:300]
    if reach is not None:
        res["reach"] = {"verdict": reach.get("verdict"), "detail": str(reach.get("detail"))[:200],
                        "wall_s": reach.get("wall_s")}
        ok = False
        if reach.get("verdict") == "cex" and "ReachWitness" in str(reach.get("detail")) and reach.get("call"):
            rr = runq(q, "replay-reach", call=reach["call"], extra_env=extra)
            res["reach"]["replay"] = rr.get("verdict")
            res["reach"]["call"] = reach["call"][:400]
            res["reach"]["functions"] = rr.get("functions", [])
            ok = rr.get("verdict") == "reached"
        elif reach.get("verdict") == "cex":
            # the twin found the real violation first: not vacuous either; re-check natively
            ok = True
            res["reach"]["note"] = "twin hit a non-witness counterexample"
        if not ok and res["status"] == "proved":
            res["status"] = "inconclusive"
            res["reason"] = f"vacuity guard: assertion point not shown reachable ({reach.get('verdict')})"
    return res


def expand_splits(queries):
    """A query with split=n becomes 2^n queries whose first n scheduler decisions are grid constants (params['prefix']);
    the union of the sub-trees is the original tree (every choice vector starts with exactly one of the prefixes), and the
    sub-queries run in parallel.  vf.cosched.Sched prepends the prefix to the solver-chosen vector."""
    out = []
    for q in queries:
        if not q.split:
            out.append(q)
            continue
        for v in range(2 ** q.split):
            bits = [bool((v >> (q.split - 1 - i)) & 1) for i in range(q.split)]
            tag = "".join("1" if b else "0" for b in bits)
            out.append(dataclasses.replace(q, qid=f"{q.qid}/pfx{tag}", params=dict(q.params, prefix=bits), split=0,
                                           what=q.what + f" [sub-tree: first {q.split} scheduling decisions = {tag}]"))
    return out


# ---------------------------------------------------------------- main
def main(argv=None):
    import argparse
    ap = argparse.ArgumentParser()
    ap.add_argument("prop")
    ap.add_argument("--tier", default=os.environ.get("VERIF_TIER", "quick"))
    ap.add_argument("--only", default=None, help="substring filter on query ids")
    ap.add_argument("--jobs", type=int, default=int(os.environ.get("VF_JOBS", "0")) or (os.cpu_count() or 4))
    ap.add_argument("--no-evidence", action="store_true")
    args = ap.parse_args(argv)
    tier = "thorough" if args.tier.startswith("t") else "quick"
    seed = int(os.environ.get("VERIF_SEED", "0") or 0)
    prop = args.prop.upper()
    os.environ["VF_REPO"] = REPO
    sys.path[:0] = [HERE, REPO]
    modname = f"props.{prop.lower()}"
    t0 = time.time()
    try:
        mod = importlib.import_module(modname)
        queries = mod.queries(tier, seed)
    except BaseException as e:
        import traceback
        traceback.print_exc()
        print(f"HARNESS-ERROR property={prop} cannot build query list: {type(e).__name__}: {e}")
        return EXIT_HARNESS
    for q in queries:
        if not q.module:
            q.module = modname
    queries = expand_splits(queries)
    seen_ids, uniq = set(), []
    for q in queries:                     # a class defined twice in the tree yields the same query twice: run it once
        if q.qid not in seen_ids:
            seen_ids.add(q.qid)
            uniq.append(q)
    queries = uniq
    if args.only:
        queries = [q for q in queries if args.only in q.qid]
    rnd = random.Random(seed)
    order = list(queries)
    rnd.shuffle(order)
    order.sort(key=lambda q: -q.cto)          # long ones first
    known = load_known(prop)
    known_open = [k for k in known if k.get("status") == "open"]
    results = {}
    # each query uses up to 2 processes (check + reach twin)
    workers = max(1, args.jobs // 2)
    with cf.ThreadPoolExecutor(workers) as ex:
        futs = {ex.submit(process_query, q, known_open): q for q in order}
        for fut in cf.as_completed(futs):
            q = futs[fut]
            try:
                results[q.qid] = fut.result()
            except BaseException as e:
                results[q.qid] = {"qid": q.qid, "status": "harness-error", "reason": repr(e)}
            r = results[q.qid]
            c = r.get("check", {})
            print(f"  [{r['status']:>13}] {q.qid}  paths={c.get('paths', '-')} wall={c.get('wall_s', '-')}s"
                  + (f"  -- {r.get('reason')}" if r.get("reason") and r["status"] != "proved" else ""), flush=True)
    wall = time.time() - t0
    ordered = [results[q.qid] for q in queries]
    violated = [r for r in ordered if r["status"] == "violated"]
    harness = [r for r in ordered if r["status"] == "harness-error"]
    inconclusive = [r for r in ordered if r["status"] == "inconclusive"]
    proved = [r for r in ordered if r["status"] == "proved"]
    rc = EXIT_OK
    os.makedirs(os.path.join(HERE, "replays", prop), exist_ok=True)
    printed = set()
    for r in ordered:
        for line in r.get("known_lines", []):
            if line not in printed:
                printed.add(line)
                print(line)
    for r in violated:
        path = os.path.join(HERE, "replays", prop, r["qid"].replace("/", "_") + ".json")
        q = [q for q in queries if q.qid == r["qid"]][0]
        call = r.get("check", {}).get("call")
        rep = {"property": prop, "query": r["qid"], "harness": f"{q.module}.{q.fn}", "params": q.params,
               "call": call, "counterexample": r.get("check", {}).get("detail"),
               "native_replay": r.get("replay"),
               "how_to_replay": f"cd /verif && VF_PARAMS='{json.dumps(q.params)}' .venv/bin/python -m vf.runq "
                                f"--module {q.module} --fn {q.fn} --mode replay --call \"{call}\""}
        with open(path, "w") as f:
            json.dump(rep, f, indent=1, default=str)
        print(f"VIOLATION property={prop} replay={path}")
        print(f"    {r['qid']}: {str(r.get('check', {}).get('detail'))[:400]}")
        rc = EXIT_VIOLATION
    for r in harness:
        print(f"HARNESS-ERROR property={prop} query={r['qid']}: {r.get('reason')}")
    for r in inconclusive:
        print(f"INCONCLUSIVE property={prop} query={r['qid']}: {r.get('reason')}")
    if harness and rc == EXIT_OK:
        rc = EXIT_HARNESS
    if not args.no_evidence:
        write_evidence(mod, prop, tier, seed, queries, ordered, wall)
    print(f"SUMMARY property={prop} tier={tier} queries={len(ordered)} proved={len(proved)} "
          f"violated={len(violated)} inconclusive={len(inconclusive)} harness_errors={len(harness)} "
          f"wall={wall:.1f}s")
    return rc


def write_evidence(mod, prop, tier, seed, queries, ordered, wall):
    level = getattr(mod, "LEVEL", "model_checking")
    paths = sum((r.get("check", {}).get("paths") or 0) for r in ordered)
    forks = sum(((r.get("check", {}).get("plugin") or {}).get("smt_forks") or 0) for r in ordered)
    checks = sum(((r.get("check", {}).get("plugin") or {}).get("solver_checks") or 0) for r in ordered)
    solver_s = sum(((r.get("check", {}).get("plugin") or {}).get("solver_s") or 0) for r in ordered)
    validated = sum(1 for r in ordered if (r.get("reach") or {}).get("replay") == "reached")
    validated += sum(1 for r in ordered if r.get("replay"))
    validated += sum(len(r.get("known_replays", [])) for r in ordered)
    funcs = set()
    for r in ordered:
        funcs.update((r.get("reach") or {}).get("functions", []))
        funcs.update((r.get("check") or {}).get("functions", []) or [])
    samples = []
    for r in ordered[:400]:
        s = {"query": r["qid"], "harness": r.get("fn"), "params": r.get("params"), "verdict": r["status"],
             "what": r.get("what"), "paths": r.get("check", {}).get("paths"),
             "wall_s": r.get("check", {}).get("wall_s")}
        if r.get("reach"):
            s["witness"] = r["reach"].get("call")
        if r.get("check", {}).get("obligation"):
            s["obligation"] = r["check"]["obligation"]
        if r["status"] != "proved":
            s["reason"] = r.get("reason")
        samples.append(s)
    n_proved = sum(1 for r in ordered if r["status"] == "proved")
    cov = {
        "samples": samples,
        "queries": len(ordered),
        "proved_in_bounds": n_proved,
        "inconclusive": [f"{r['qid']}: {r.get('reason')}" for r in ordered if r["status"] == "inconclusive"],
        "exhaustive": n_proved == len(ordered),
        "functions_encoded": sorted(funcs),
        "bounds": getattr(mod, "BOUNDS", []),
        "outside_bounds": getattr(mod, "OUTSIDE", []),
        "solver_checks": checks,
        "solver_s": round(solver_s, 2),
        "engine": getattr(mod, "ENGINE", "CrossHair 0.0.110 + z3 on the real modules (fresh process per query)"),
    }
    if level == "proof":
        obligations = sum((r.get("check", {}).get("obligations") or 1) for r in ordered)
        discharged = sum((r.get("check", {}).get("discharged") or (1 if r["status"] == "proved" else 0))
                         for r in ordered)
        cov.update({"obligations": obligations, "discharged": discharged,
                    "checker_cmd": getattr(mod, "CHECKER_CMD", "bin/check " + prop),
                    "trusted_base": getattr(mod, "TRUSTED", [])})
    else:
        cov.update({"states": max(paths, 1), "transitions": max(forks + checks, 1),
                    "traces_validated_against_impl": validated})
    ev = {"property_id": prop, "tier": tier, "seed": seed, "level": level, "coverage": cov,
          "assumptions": getattr(mod, "ASSUMPTIONS", []), "wall_s": round(wall, 2),
          "violations": sum(1 for r in ordered if r["status"] == "violated")}
    os.makedirs(os.path.join(HERE, "evidence"), exist_ok=True)
    with open(os.path.join(HERE, "evidence", f"{prop}.json"), "w") as f:
        json.dump(ev, f, indent=1, default=str)


if __name__ == "__main__":
    sys.exit(main())
