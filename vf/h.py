"""Helpers shared by harness modules (imported inside the query subprocess)."""
import json
import os
import sys

REPO = os.environ.get("VF_REPO", "/repo")
if REPO not in sys.path:
    sys.path.insert(0, REPO)

#: concrete parameters of the current query (grid point); set by the driver
P = json.loads(os.environ.get("VF_PARAMS", "{}"))
MODE = os.environ.get("VF_MODE", "check")     # check | reach | replay
REPLAY = MODE == "replay"     # harnesses guard note(...) with it: the arguments are only worth computing natively

NOTES = {}


class ReachWitness(Exception):
    """Raised at the assertion point by the reachability twin (vacuity guard)."""


class HarnessError(Exception):
    """The harness itself is wrong (target missing, stand-in misuse...).  Never a finding."""


class HarnessTargetMissing(HarnessError):
    """the harness reached for an internal name (private attribute, private signature) that the tree under test no longer has:
    no verdict on the property - inconclusive, never a finding"""


_HERE = os.path.dirname(os.path.dirname(os.path.abspath(__file__)))


def is_harness_fault(e):
    if not isinstance(e, (AttributeError, NameError, ImportError, TypeError)):
        return False
    tb = e.__traceback__
    while tb is not None and tb.tb_next is not None:
        tb = tb.tb_next
    if tb is None or not tb.tb_frame.f_code.co_filename.startswith(_HERE + os.sep):
        return False                      # raised inside the code under test (or the standard library): a real failure
    if isinstance(e, AttributeError):
        obj = getattr(e, "obj", None)
        mod = getattr(type(obj), "__module__", "") or ""
        return bool(mod.startswith("bromelia") or isinstance(obj, type(os)) or (isinstance(obj, type) and obj.__module__.startswith("bromelia")))
    if isinstance(e, TypeError):
        return "argument" in str(e) or "positional" in str(e)      # a private signature changed under the harness
    return True


def reraise_if_harness(e):
    """first statement of every broad `except` in a harness: an exception that is the harness's own (see is_harness_fault) must
    not be mistaken for behaviour of the code under test"""
    if isinstance(e, HarnessError):
        raise e
    if is_harness_fault(e):
        raise HarnessTargetMissing(f"{type(e).__name__}: {e}") from e


def reached():
    """Marks the point where the property assertion is evaluated."""
    if MODE == "reach":
        raise ReachWitness()


def note(**kw):
    """Record observed/expected values; only kept in native replay mode."""
    if MODE == "replay":
        for k, v in kw.items():
            try:
                json.dumps(v)
                NOTES[k] = v
            except TypeError:
                NOTES[k] = repr(v)


def lib_errors():
    """Tuple of every exception class defined in bromelia.exceptions (they derive from
    BaseException, as do CrossHair's path-steering exceptions, so harnesses must catch
    this explicit tuple and never BaseException)."""
    import bromelia.exceptions as E
    out = []
    for name in dir(E):
        o = getattr(E, name)
        if isinstance(o, type) and issubclass(o, BaseException) and o.__module__ == E.__name__:
            out.append(o)
    return tuple(out)


# ------------------------------------------------------------------ reference RFC 6733 codec
def ref_pad(n):
    return (4 - n % 4) % 4


def ref_avp(code, flags, vendor, data):
    """code:int flags:int vendor:int|None data:bytes -> bytes (RFC 6733 section 4.1)"""
    hdr = 12 if vendor is not None else 8
    ln = hdr + len(data)
    out = code.to_bytes(4, "big") + bytes([flags]) + ln.to_bytes(3, "big")
    if vendor is not None:
        out += vendor.to_bytes(4, "big")
    return out + data + bytes(ref_pad(len(data)))


def ref_msg(version, flags, command, app, hbh, e2e, avps):
    """avps: list of already encoded AVPs (bytes) -> bytes (RFC 6733 section 3)"""
    body = b"".join(avps)
    total = 20 + len(body)
    return (bytes([version]) + total.to_bytes(3, "big") + bytes([flags]) + command.to_bytes(3, "big")
            + app.to_bytes(4, "big") + hbh.to_bytes(4, "big") + e2e.to_bytes(4, "big") + body)


def ref_decode_avps(b):
    """Independent decoder used by oracles: -> list of (code, flags, vendor|None, data)."""
    out = []
    i = 0
    while i < len(b):
        code = int.from_bytes(b[i:i + 4], "big")
        flags = b[i + 4]
        ln = int.from_bytes(b[i + 5:i + 8], "big")
        if flags & 0x80:
            vendor = int.from_bytes(b[i + 8:i + 12], "big")
            data = b[i + 12:i + ln]
        else:
            vendor = None
            data = b[i + 8:i + ln]
        out.append((code, flags, vendor, data))
        i += ln + ref_pad(ln)
    return out


def ref_decode_msgs(b):
    out = []
    i = 0
    while i < len(b):
        ln = int.from_bytes(b[i + 1:i + 4], "big")
        hdr = dict(version=b[i], length=ln, flags=b[i + 4], command=int.from_bytes(b[i + 5:i + 8], "big"),
                   app=int.from_bytes(b[i + 8:i + 12], "big"), hbh=int.from_bytes(b[i + 12:i + 16], "big"),
                   e2e=int.from_bytes(b[i + 16:i + 20], "big"))
        out.append((hdr, ref_decode_avps(b[i + 20:i + ln])))
        if ln < 20:
            raise HarnessError("reference decoder: bad length")
        i += ln
    return out


# ------------------------------------------------------------------ known-finding regions
EXCL = json.loads(os.environ.get("VF_EXCLUDE", "[]"))


def admit(**kw):
    """Precondition helper: False inside the region of a listed *open* known finding
    (regions are python expressions over the harness's own argument names)."""
    for region in EXCL:
        if eval(region, {"P": P}, dict(kw)):
            return False
    return True


# ------------------------------------------------------------------ tracing control
import contextlib


def untraced():
    """Run a purely concrete stretch of a harness outside CrossHair's tracer (no symbolic value may be involved:
    everything inside behaves exactly as in native execution, just faster).  A no-op natively."""
    try:
        from crosshair.tracers import NoTracing, is_tracing
    except Exception:
        return contextlib.nullcontext()
    return NoTracing() if is_tracing() else contextlib.nullcontext()

# ------------------------------------------------------------------ logging stub
# Log *records* are dropped (formatting an emitted record would realise every symbolic value inside the message);
# the f-strings that build the messages in bromelia still execute, symbolically (plug-in P5 for .hex()).
import logging as _logging
_logging.disable(_logging.CRITICAL)


def traced():
    """inverse of untraced(): switch CrossHair's tracer back on inside an untraced stretch (no-op natively)"""
    if MODE not in ("check", "reach"):
        return contextlib.nullcontext()
    try:
        from crosshair.tracers import ResumedTracing, is_tracing
    except Exception:
        return contextlib.nullcontext()
    return contextlib.nullcontext() if is_tracing() else ResumedTracing()


def concrete(x):
    """force a solver variable to a concrete Python value under tracing (forking on its value); identity natively"""
    if MODE not in ("check", "reach"):
        return x
    from crosshair.core import realize
    return realize(x)
