"""Generate /verif/MANIFEST.json from the table below (python -m vf.mkmanifest).
A property is claimed iff props/<id>.py exists and the id is in CLAIMED; everything else is
listed under not_applicable with its reason."""
import json
import os

HERE = os.path.dirname(os.path.dirname(os.path.abspath(__file__)))

E1 = "CrossHair symbolic execution of the real bromelia modules (z3), all paths within stated bounds"
E2 = "AST->SMT-LIB translation of the real leaf kernels, unsat of the negated property from z3 and cvc5"
E3 = "real methods coroutinised from source, scheduler choices as symbolic ints, explored by CrossHair/z3"

CLAIMED = {
    "C18": dict(
        level="model_checking", technique=E1, design="6/C18",
        text="Bounded symbolic model checking: for each digit-string length L the harness executes the real "
             "encode_to_tbcd/decode_from_tbcd/MsisdnAVP/StnSrAVP on a string whose every digit is a solver "
             "variable; CrossHair closes the whole path tree, so the verdict covers all 10^L strings of that "
             "length. A reachability twin guards against vacuity and counterexamples are replayed natively.",
        note="Trusted: CrossHair 0.0.110 symbolic str/int/bytes models, z3 5.1, the reference TBCD oracle. "
             "Bound: L<=8 quick, L<=16 thorough (paths grow as 2^L); special symbols *#abc outside the claim."),
}

CLAIMED["C17"] = dict(
    level="proof", technique=E2 + "; plus " + E1, design="6/C17",
    text="SMT obligations generated from the predicates' current source: for each of the five integer predicates "
         "'forall n in Int, n%1000!=0 -> (f_k(n) <-> n div 1000 = k)', the same for the five answer-object predicates "
         "over every 4-byte Result-Code word, and pairwise exclusivity for every code; each obligation is the unsat "
         "of its negation, required from z3 and cvc5 independently. CrossHair re-decides the same clauses through "
         "real DiameterMessage/ResultCodeAVP objects so that has_avp/attribute glue is covered.",
    note="Trusted: z3 5.1.0, cvc5 1.0, the AST->SMT translator (validated each run on all library result-code "
         "constants), CrossHair's models. E2 stubs has_avp()/result_code_avp.data (listed in evidence).")

CLAIMED["C20"] = dict(
    level="model_checking", technique=E1 + "; bit kernels also by " + E2, design="6/C20",
    text="Bits: is_bit_set/set_bit/unset_bit are translated from source and decided for every 32-bit word at each "
         "index by z3 and cvc5 (word defined by its binary digits, big-endian byte layout), and re-decided by CrossHair "
         "through real VendorIdAVP/FeatureListAVP objects with symbolic (word, index) including out-of-range indices. "
         "Address: literals rendered from symbolic digits/nibbles (all octet values; IPv6 nibble grid, '::' grid), bytes "
         "input with symbolic 16-bit family. Time: bromelia's arithmetic for every (days, seconds) via a datetime stand-in.",
    note="Trusted: CrossHair models, z3 5.1, cvc5 1.0, vf/ast2smt.py (validated per run), stdlib ipaddress/datetime. "
         "Bounds: IPv6 with <=2 symbolic nibbles per query; IPv4 canonical spellings; Time days<=60000.")

CLAIMED["C15"] = dict(
    level="model_checking", technique=E1, design="6/C15",
    text="One-step inductive check: the process-wide registries are set to arbitrary lists of m distinct symbolic "
         "32-bit ids (invariant: registry == everything issued), os.urandom is a stub returning the next element of a "
         "symbolic list (any values, repeats allowed), one request of each class is created by the real constructors; "
         "CrossHair shows for all values that both new ids are outside the registries and the registries grow by exactly "
         "them. Answers / explicit-header requests are shown to draw nothing. Bounded histories add readable witnesses.",
    note="Trusted: CrossHair, z3, the urandom stub contract. Bounds: m<=2/3 registry entries, d<=4/6 draws; histories "
         "longer than the bound are covered by the inductive argument only as far as the registry is an unbounded container.")
CLAIMED["C16"] = dict(
    level="model_checking", technique=E1, design="6/C16",
    text="One-step inductive check over all 32-bit (init, id, now) with a stubbed clock: a generation of each kind "
         "(Session-Id AVP, Acct-Multi-Session-Id AVP, bulk origin update, typed message) with identity and previous "
         "identity chosen symbolically must yield identity;high;low[;opt] with (high, low) outside the ghost set of "
         "issued pairs and keep the (init, id) invariant; bounded sequences inside one clock second must be pairwise "
         "distinct; bytes input is carried unchanged.",
    note="Trusted: CrossHair, z3; decimal rendering of the counters is opaque (tokens recording value and format spec), "
         "Python's str(int) trusted. Outside: identities containing ';', clock going backwards, counter beyond 2^32.")

CLAIMED["C12"] = dict(
    level="model_checking", technique=E1, design="6/C12",
    text="The real decorate_answer is executed on request/answer pairs built through the public constructors with "
         "Application-ID, Hop-by-Hop, End-to-End (request and answer), Result-Code (all 2^32 values that are not "
         "multiples of 1000), the answer's incoming E bit and the Session-Id bytes as solver variables; CrossHair closes "
         "every path. Oracle: copy rule, rc//1000 in {3,4,5}, no Result-Code next to Experimental-Result, and the dumped "
         "answer equals the reference RFC 6733 encoding of its content (so Message Length matches).",
    note="Trusted: CrossHair, z3, reference encoder. Bounds: Session-Id length grid (every residue), class pairs generic, "
         "CER/CEA, ULR/ULA (+STR/STA, plain messages in thorough). Outside: answers lacking a Session-Id AVP for a request "
         "that has one; multiples of 1000.")

CLAIMED["C01"] = dict(
    level="model_checking", technique=E1, design="6/C01",
    text="Differential bounded model checking of the real encoder against a 25-line reference RFC 6733 encoder fed the "
         "same logical content: header fields (all values), generic AVP code/flags/vendor/data, messages of generic AVPs "
         "over every length residue, every Grouped and custom-logic dictionary class plus one class per (type, vendor-ness) "
         "with symbolic leaf values (all 206 classes x residues in thorough), nested Grouped AVPs to depth 3/4, same-code siblings "
         "with free flags/data at three levels (so byte-equal siblings arise as solver cases), flag-setter sequences, "
         "Request/Answer constructors, and messages derived by DiameterMessage.convert() / copy() / DiameterAVP.convert() (result and source). Each query is one bytes equality over symbolic content; CrossHair closes "
         "every path, counterexamples are replayed natively.",
    note="Trusted: CrossHair, z3, the reference encoder, the frozen reference dictionary (ref/avp_dictionary.json). One "
         "dimension is symbolic per query; shapes and lengths are grid parameters (data <= 9 bytes per leaf, <= 3 top-level "
         "AVPs, depth <= 4). Typed command classes are covered by C09 with the same oracle.")

CLAIMED["C09"] = dict(
    level="model_checking", technique=E1, design="6/C09",
    text="For every typed command class found under bromelia.lib the real constructor is executed with a window of its "
         "arguments made symbolic: presence of each argument is a solver boolean (all subsets in one path tree) and each "
         "present argument gets a symbolic in-domain value from the AVP value generator; the built message must have the "
         "command code / Application-ID / R flag of the vendored reference table, P iff the Application-ID is non-zero, each "
         "settable mandatory AVP exactly once, AVPs in declared order with extras last, each argument carried by its "
         "dictionary class, and dump() equal to the reference encoding; omitted mandatory arguments must raise a library "
         "error; a native sweep covers pairing, None-rejection and decode round trips for all classes.",
    note="Trusted: CrossHair, z3, ref/commands.json, reference encoder, frozen AVP dictionary. Bound: windows of <=3 (quick) / 5 "
         "arguments per query (quick: one rotating window per class), leaf lengths 1..4, Grouped depth 3.")

CLAIMED["C11"] = dict(
    level="model_checking", technique=E1 + " (operation choices are solver integers; the solver prunes nothing in that dimension)",
    design="6/C11",
    text="Every operation sequence over a 30-entry (operation, operand) alphabet - append, pop, cleanup, list replacement, "
         "extend, item assignment, key renaming, bulk update, refresh over a 12-object AVP alphabet with equal-valued, same-name, "
         "unknown and Grouped AVPs of every length residue - is executed on the real DiameterMessage from 8 start states that "
         "take 0-5 steps to reach; after every operation the named view, the AVP list and the Message Length are compared with "
         "a list-based reference container. The sequence is a vector of solver integers explored exhaustively by CrossHair.",
    note="Trusted: CrossHair path enumeration, the reference container/coherence predicate. Bounds: n<=2 full alphabet and n=3 "
         "reduced alphabet per start state (quick); n=3 full, n=4-5 reduced (thorough). Outside: same object appended twice, "
         "GroupedType's container, renaming to a key without '_avp'.")

CLAIMED["C13"] = dict(
    level="model_checking", technique=E1, design="6/C13",
    text="The real route decorator, get_request_callback, callback_route, create_error_answer, send_message and "
         "decorate_answer run on a Bromelia object with in-process workers; the targeted registered (application, command) "
         "pair, the handler outcome (answer, answer with E preset, None, str, the request, raises), the request's "
         "Hop-by-Hop/End-to-End and Session-Id bytes are solver variables; CrossHair shows for all of them that exactly the "
         "registered handler ran once, exactly one answer reached the worker of the request's application, and that the "
         "fallback is a DIAMETER_UNABLE_TO_COMPLY answer with the request's ids and Session-Id, local origin and the requester "
         "as destination. Handler outcomes include exceptions without arguments, a bare assert, a chained exception with non-str "
         "arguments, an int and a freshly built request.",
    note="Trusted: CrossHair, z3, Barrier/lock/queue stand-ins, log records dropped. Bounds: 2 applications x 2 command codes "
         "(5 table shapes), same-named and distinctly named handlers. Outside: unregistered pairs, requests lacking "
         "Session-Id/Origin-Host/Origin-Realm.")

CLAIMED["C19"] = dict(
    level="model_checking", technique=E1, design="6/C19",
    text="The real _convert_config_to_connection_obj / Diameter(config=) / _convert_file_to_config are executed on complete "
         "configurations in which one key (group) is symbolic per query - MODE and TRANSPORT_TYPE as arbitrary short strings, "
         "IPv4 addresses as digit templates with every digit symbolic and as a valid stem with an arbitrary inserted character, "
         "the timeout as any int or a non-int kind (each kind's falsy value too, through the converter and through Diameter(config=)), names/ports/application byte values verbatim - under several key insertion "
         "orders; the verdict 'Connection equal to the input, or InvalidConfigKey/InvalidConfigValue' is compared with an "
         "independent validator. YAML half: yaml.load/open stubbed to a symbolic spec list (mode/transport case variants, "
         "per-entry TCP default, constants by name).",
    note="Trusted: CrossHair, z3, stdlib ipaddress (P6 opaque messages), the independent validator. Bounds: strings <= 6/4 "
         "chars, 6 key orders (quick) / 25, spec lists of <= 3 (quick) / 4 entries. Outside: incomplete configs, booleans, "
         "non-str IP values, YAML text parsing.")

CLAIMED["C10"] = dict(
    level="model_checking", technique=E1 + "; function-hood as a finite SMT instance decided by z3 and cvc5", design="6/C10",
    text="Type enforcement: for one class per (declared type, vendor-ness) plus the custom-logic classes (all classes in "
         "thorough) the real constructor is run on every Python int, on bytes of each length 0..9 (Address 0..19) with symbolic "
         "content and on every short str; CrossHair shows that it either raises or yields an instance whose data has the exact "
         "width / enumeration membership / address family-width agreement and whose dump() is the reference encoding; Grouped "
         "classes over every subset of their mandatory members. Function-hood of the (vendor, code) registry is one unsat SMT "
         "query over the live rows. Dispatch (incl. classes defined after the first lookup), published identity vs the frozen "
         "dictionary, docs/list-of-avps.md and definitions.py, and non-solver value kinds are table comparisons (stated as such).",
    note="Trusted: CrossHair, z3, cvc5, the well-formedness predicate, ref/avp_dictionary.json. Outside: DiameterURI grammar "
         "beyond the scheme, address families other than IPv4/IPv6, floats.")

CLAIMED["C02"] = dict(
    level="model_checking", technique=E1, design="6/C02",
    text="Wire images are produced by the reference encoder from a symbolic logical description (all header bytes; per AVP the "
         "M/P/reserved bits and data; leaf values of dictionary classes; 1-3 concatenated messages; Grouped nesting) and fed to "
         "the real DiameterMessage.load; CrossHair shows for all contents that the message count/order, every header field, "
         "each AVP's code/flags/Vendor-ID/data/class and the re-dump equal the description (including byte-identical same-code "
         "siblings at message level, inside a Grouped AVP and inside a nested one). The re-flagging of known AVPs that "
         "carry non-default flag bits is an open known finding: its witness is replayed and its region excluded.",
    note="Trusted: CrossHair, z3, reference encoder, frozen dictionary. Structure (AVP codes, lengths, counts) is a grid "
         "parameter; unknown (vendor, code) pairs are concrete constants per position. Outside: non-zero padding, > 3 messages.")

CLAIMED["C03"] = dict(
    level="model_checking", technique=E1 + " on fuel-instrumented decoders and single-stepped real thread bodies", design="6/C03",
    text="Decoder: DiameterMessage.load / DiameterAVP.load are recompiled from source with a fuel counter in every loop and run "
         "on a reference image in which exactly one field is arbitrary (Message/AVP Length at depth 0 and 1 over their whole "
         "24-bit range by value class, flags byte, truncation point, typed data of every width per declared type, trailing bytes, "
         "small raw buffers); CrossHair shows the result is a list or a library error and the fuel never runs out. Node: the same "
         "bytes are delivered to a live association on a stand-in transport (real reader, receive-worker iteration and state "
         "machine ticks); no exception escapes, no lock stays held, a following well-formed request is still delivered and "
         "send_message/close return. A framed-but-malformed message is also placed between well-formed ones with the reads cut at "
         "every offset of the following message (solver-enumerated) and inside the preceding one (grid).",
    note="Trusted: CrossHair (+P2 slice-bound normalisation), z3, stand-in transport, reference encoder. In-range length "
         "values are enumerated natively (finite class). Open known finding: an invalid DWA parks the node in Closing without "
         "a DPR. Outside: multi-field corruption beyond the raw-buffer bound; states other than Open (C06).")

CLAIMED["C04"] = dict(
    level="model_checking", technique=E1 + " (segmentation) + " + E3 + " (interleavings)", design="6/C04",
    text="(i) The reference encoding of 1-3 messages is cut at solver-chosen positions (any byte offsets, also inside headers and "
         "length fields) and handed to the REAL reader/receive-worker/state-machine/consumer code on a stand-in socket; CrossHair "
         "shows for every cut that get_message() yields exactly the application messages, complete and in order, and that base "
         "requests are answered in order. (ii) TcpConnection._run/read, recv_message_from_queue, the state-machine loop and "
         "get_message are re-compiled from source as coroutines on stand-in Lock/Event/Queue/selector objects; a network thread "
         "delivers later segments at arbitrary moments; every scheduling decision is a boolean solver variable and CrossHair "
         "enumerates all schedules within the preemption bound (statement-level preemption inside read() and the receive worker). "
         "(iii) The state machine -> consumer hand-over is explored in isolation with a preemption point before every statement of "
         "get_message / get_postprocess_recv_message / notify_postprocess_message.",
    note="Trusted: CrossHair, z3, stand-in primitives and scheduler (vf/cosched.py, vf/conode.py), reference encoder. Bounds: "
         "<= 3 messages, <= 3 cuts, <= 1 (quick) / 2 (thorough) preemptions, K <= 64 decisions. Outside: bytecode-level "
         "preemption, real kernel sockets, SCTP, freely scheduled idle ticks. Two genuine defects found and fixed (no "
         "reassembly; unsynchronised take of the receive stream).")

CLAIMED["C05"] = dict(
    level="model_checking", technique=E3, design="6/C05",
    text="Diameter.send_message/send_messages, put_message_into_send_queue, send_message_from_queue, the state-machine loop and "
         "TcpConnection._run/read/write/_write/_set_selector_events_mask are re-compiled from the current source as coroutines on "
         "stand-in Lock/Event/Queue/selector/socket objects. 1-2 submitter threads, the state-machine thread, the transport "
         "thread and optionally a network thread (an inbound DWR or request arriving at an arbitrary moment, with the receive "
         "worker) are scheduled by boolean solver variables; CrossHair enumerates every schedule within the preemption bound, at "
         "synchronisation-operation granularity and with a preemption point before every statement of the send-path methods. "
         "The stand-in socket accepts a stated pattern of partial writes. Oracle: the bytes accepted by the socket are an "
         "interleaving of the submitted encodings and the expected DWA - each whole, once, per-submitter order kept - and no "
         "lock stays held.",
    note="Trusted: CrossHair, z3, stand-in primitives and scheduler (vf/cosched.py, vf/conode.py). Bounds: <= 2 submitters, <= 3 "
         "messages, <= 1-2 (quick) / 4 (thorough) preemptions, K <= 64 decisions, partial-write patterns 7,1 / 1,30 / 5 / 3. "
         "Outside: bytecode-level preemption, real sockets, SCTP. Batches exceeding the send buffer and a message larger than the "
         "buffer are covered with the buffer constant patched down (behaviour is parametric in it). Five genuine defects found and "
         "fixed (duplicate on partial write, loss on read-event mask reset, lost wake-up deadlock, re-queue at the tail reorders, "
         "oversize message never sent).")

CLAIMED["C08"] = dict(
    level="model_checking", technique=E3 + " (delay-bounded and preemption-bounded schedule exploration)", design="6/C08",
    text="Diameter.close/get_message, DiameterAssociation.close/get_message/recv_message_from_queue, the state-machine loop with "
         "every state's handlers, PeerStateMachine.get_next_state and TcpConnection._run/read/write/close/test_connection are "
         "re-compiled from the current source as coroutines on stand-in primitives. Grid: termination cause (local close with "
         "and without a DPA, DPR from the peer, peer disconnect, peer reset, refused connection) x point in life (Open idle / "
         "queued inbound and outbound traffic / consumer blocked in get_message; Wait-Conn-Ack, Wait-I-CEA, server Closed). The "
         "scheduler's delays are boolean solver variables; CrossHair enumerates every schedule within the delay bound. Oracle "
         "once the system has settled: state Closed, sockets closed and unregistered, transport released, transport / worker / "
         "state-machine coroutines returned, the blocked consumer returned, association lock free, Diameter.start() accepted "
         "and a second association on the same object answers a DWR. The life/* queries drive the node from the REAL "
         "Diameter.start() (PeerStateMachine.start, DiameterAssociation.start, TcpClient/TcpServer.start and run, every Thread "
         "they start) on stand-in socket.socket / DefaultSelector / Thread with connect_ex() returning EINPROGRESS or "
         "ECONNREFUSED, through the connection's end, and then call the real start() again: CER/CEA and DWR/DWA must complete.",
    note="Trusted: CrossHair, z3, stand-in primitives and scheduler. Bounds: <= 4 (quick) / 7 delays at synchronisation-operation "
         "granularity, <= 2 / 3 delays with statement-level preemption in the teardown methods. Thread termination is the return "
         "of the coroutinised loop, not an OS thread exit. Three defects fixed; two open known findings (server: peer gone "
         "before the CER; close() requested before Open) are whole grid points whose witnesses are replayed on every run.")

CLAIMED["C06"] = dict(
    level="model_checking", technique=E1 + " (one-step inductive check against a reference transition function)", design="6/C06",
    text="For each (role, state) one tick of the real PeerStateMachine loop body is executed on a stand-in transport from a "
         "pre-state whose local-stop / peer-disconnect / connect-ack flags, idle counter and watchdog timeout (all values), queued "
         "outbound message and inbound queue head (17 message kinds incl. CER/CEA from a wrong host or realm, with missing AVP or "
         "wrong flags, DWR/DWA/DPR/DPA variants, addressed / misaddressed application requests; symbolic identifiers) are solver "
         "variables; the reported state, the messages handed to the transport, delivery to the application, release of the "
         "transport on Closed and the absence of exceptions are compared with a reference transition function transcribed from "
         "the property text; any exception (library or not) escaping the tick is a violation. The same query is repeated with the "
         "association's pending-request registries in four shapes relative to the inbound identifiers (outstanding, already "
         "answered = retransmitted answer, Hop-by-Hop only, End-to-End only). Bounded walks from Closed confirm reachability "
         "and 'Open only after a valid exchange'.",
    note="Trusted: CrossHair, z3, stand-in transport, the reference transition function. Outside: election states beyond 'absorbing "
         "and silent', SCTP, real timers, outbound messages submitted before Open.")
CLAIMED["C14"] = dict(
    level="model_checking", technique=E3, design="6/C14",
    text="Bromelia.send_message, handler_pending_answers, PendingAnswer.wait/notify and the Worker hand-over/registry methods are "
         "re-compiled from source into coroutines (blocking operations and registry accesses become preemption points; in the "
         "'lines' queries every statement does) and run under a scheduler whose every decision is a boolean solver variable; "
         "CrossHair exhausts all schedules within the preemption bound: each caller must get the answer object whose Hop-by-Hop "
         "equals its request's, nobody is left blocked (Deadlock is the violation witness), the registry ends empty. Whatever "
         "threading primitives PendingAnswer and its class hold (Event, Lock, Condition, under any attribute name) are replaced by "
         "scheduler stand-ins after the real constructor ran; the Worker objects are built by the real Worker constructor from a "
         "stand-in manager, and one query puts two callers on two Diameter interfaces with the SAME Hop-by-Hop identifier.",
    note="Trusted: CrossHair path enumeration, the coroutiniser, stand-in Lock/Event/Queue/Barrier, 'timeouts fire only at "
         "quiescence'. The solver prunes nothing in the schedule dimension (stated in DESIGN 2.4). Bounds: k<=2 callers (quick), "
         "preemption budgets as listed in the evidence; outside: same Hop-by-Hop twice (C15), bytecode-level preemption.")

CLAIMED["C07"] = dict(
    level="model_checking", technique=E1, design="6/C07",
    text="Sequences of 1-3 base requests (CER, DWR, DPR) are placed back-to-back in the inbound queue of a live association on a "
         "stand-in transport - optionally with application traffic in between, behind an outbound backlog that exceeds the send "
         "buffer, or across a restart of the same node object - with every Hop-by-Hop and End-to-End identifier a 32-bit solver "
         "variable; the real state classes are ticked, and the bytes handed to the transport are decoded with the reference "
         "decoder: the i-th answer has the i-th request's command code, R clear, its identifiers, the local origin and a "
         "Result-Code, and at most one inbound message is consumed per tick. In Closing (crossing requests after a local stop) "
         "requests may go unanswered, but every base answer emitted must carry the identifiers of one received request.",
    note="Trusted: CrossHair, z3, stand-in transport (transport thread body runs between ticks / while the state machine waits), "
         "reference decoder. Bounds: sequences <= 3; SEND_BUFFER_MAXIMUM_SIZE patched to one application message + 8 bytes in the backlog queries.")

PENDING_REASON = "check not built yet in this session (planned in DESIGN.md section 6); no claim is made"
NOT_APPLICABLE = {}

ALL = [f"C{n:02d}" for n in range(1, 21)]


def main():
    checks = []
    for pid in ALL:
        if pid in CLAIMED and os.path.exists(os.path.join(HERE, "props", pid.lower() + ".py")):
            c = CLAIMED[pid]
            checks.append({
                "property_id": pid,
                "quick_cmd": f"bin/check {pid} --tier quick",
                "thorough_cmd": f"bin/check {pid} --tier thorough",
                "evidence_file": f"/verif/evidence/{pid}.json",
                "replay_cmd_template": "python3 -c \"import json,sys,subprocess; r=json.load(open('{path}')); "
                                       "sys.exit(subprocess.call(r['how_to_replay'], shell=True))\"",
                "engine": "vf",
                "level_claimed": {"category": c["level"], "text": c["text"], "design_ref": c["design"]},
                "level_note": c["note"],
                "technique": c["technique"],
            })
    na = []
    for pid in ALL:
        if pid not in {c["property_id"] for c in checks}:
            na.append({"property_id": pid, "reason": NOT_APPLICABLE.get(pid, PENDING_REASON)})
    man = {
        "version": 1,
        "setup_cmd": "bin/ensure_env",
        "hooks": {
            "guard": "BROMELIA_VERIF",
            "enable": "no source hooks: instrumentation (fuel, coroutines, stand-ins) is applied to source text read "
                      "at run time and bound onto harness subclasses; BROMELIA_VERIF is reserved and unused",
            "baseline_off_cmd": "cd /repo && /venv/bin/python -m pytest -ra -q -p no:cacheprovider --timeout=900 "
                                "--continue-on-collection-errors",
            "source_commits": [],
            "add_only": True,
        },
        "engines": [
            {"name": "vf", "path": "/verif/vf", "serves_properties": [c["property_id"] for c in checks],
             "kind_free_text": "solver-based checking of the real code: CrossHair+z3 per query in fresh processes "
                               "(vf/runq.py, vf/plugin.py), AST->SMT-LIB for leaf kernels (vf/ast2smt.py), "
                               "coroutinised real methods under a symbolic scheduler (vf/cosched.py)"}
        ],
        "checks": checks,
        "not_applicable": na,
        "notes": "Every check rebuilds its encoding from /repo's working tree on each run; see DESIGN.md.",
    }
    with open(os.path.join(HERE, "MANIFEST.json"), "w") as f:
        json.dump(man, f, indent=1)
    print(f"MANIFEST.json: {len(checks)} claimed, {len(na)} not_applicable")


if __name__ == "__main__":
    main()
