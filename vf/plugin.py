"""CrossHair precision/fidelity plug-in (DESIGN.md section 2.2) + run statistics.

Importing this module installs the patches.  Every patch only changes *how* a value is
represented symbolically, never what the Python semantics are; each is validated by
`vf.selftest` (differential: symbolic result == CPython result on the realised operands)
and, independently, by the driver's replay rule.

P1  x & m, x | m, x ^ m  (symbolic x >= 0, concrete m >= 0) as div/mod linear arithmetic
P2  slice bounds of SymbolicBytes normalised against len() before realisation
P3  IndexError text of SymbolicBytes.__getitem__ == CPython's ("index out of range")
P5  branch-free hex digit (bytes.hex() in logging f-strings)
P6  opaque %-format result inside stdlib ipaddress.py (messages of exceptions only)
P7  bytes == bytes of concrete equal lengths as one conjunction
"""
import operator as ops
import sys
import time
from numbers import Integral

import z3
from crosshair import core as _core
from crosshair.core import realize
from crosshair.libimpl import builtinslib as B
from crosshair.statespace import context_statespace
from crosshair.tracers import NoTracing
from crosshair.util import CrossHairValue as _CHV

STATS = {"solver_checks": 0, "solver_s": 0.0, "smt_forks": 0, "p1": 0, "p2": 0, "p5": 0, "p6": 0, "p7": 0}
WIDTH = 64

# ---------------------------------------------------------------- statistics
_orig_check = z3.Solver.check


def _timed_check(self, *a, **k):
    t0 = time.perf_counter()
    try:
        return _orig_check(self, *a, **k)
    finally:
        STATS["solver_checks"] += 1
        STATS["solver_s"] += time.perf_counter() - t0


z3.Solver.check = _timed_check

from crosshair import statespace as _ss

_orig_fork = _ss.StateSpace.smt_fork


def _counted_fork(self, *a, **k):
    STATS["smt_forks"] += 1
    return _orig_fork(self, *a, **k)


_ss.StateSpace.smt_fork = _counted_fork


# ---------------------------------------------------------------- P1
def _bits_and(var, mask):
    if mask & (mask + 1) == 0:            # mask == 2^k - 1: x & mask == x mod 2^k (one term instead of k)
        return var % (mask + 1) if mask else z3.IntVal(0)
    terms = []
    k = 0
    while (1 << k) <= mask:
        if mask & (1 << k):
            terms.append(((var / (1 << k)) % 2) * (1 << k))
        k += 1
    if not terms:
        return z3.IntVal(0)
    return z3.Sum(terms) if len(terms) > 1 else terms[0]


def _bit_handler(op, a: Integral, b: Integral):
    with NoTracing():
        if isinstance(b, B.SymbolicInt) and not isinstance(a, B.SymbolicInt):
            a, b = b, a
        if isinstance(b, B.SymbolicInt):
            b = realize(b)
        if isinstance(b, bool):
            b = int(b)
        if (not isinstance(a, B.SymbolicInt) or not isinstance(b, int)
                or b < 0 or b >= (1 << WIDTH)):
            return op(realize(a), realize(b))
        space = context_statespace()
        if not space.smt_fork(a.var >= 0, probability_true=0.9):
            return op(realize(a), b)
        STATS["p1"] += 1
        conj = _bits_and(a.var, b)
        if op is ops.and_:
            return B.SymbolicInt(conj)
        if op is ops.or_:
            return B.SymbolicInt(a.var + b - conj)
        if op is ops.xor:
            return B.SymbolicInt(a.var + b - 2 * conj)
        raise AssertionError(op)


B.setup_binop(_bit_handler, {ops.and_, ops.or_, ops.xor})
for _k in [k for k in B._BIN_OPS if k[0] in (ops.and_, ops.or_, ops.xor)]:
    del B._BIN_OPS[_k]


# ---------------------------------------------------------------- P2 / P3
def _norm(x, L, default):
    if x is None:
        return default
    with NoTracing():
        concrete = not isinstance(x, B.SymbolicInt)
    if concrete:
        return x
    if x < 0:
        x = x + L
        if x < 0:
            return 0
        return x
    if x >= L:
        return L
    return x


def _wrap_getitem(cls):
    orig = cls.__getitem__

    def __getitem__(self, i):
        with NoTracing():       # isinstance() is patched under tracing (symbolic ints answer as `int`)
            sym = isinstance(i, slice) and i.step is None and (
                isinstance(i.start, B.SymbolicInt) or isinstance(i.stop, B.SymbolicInt))
        if sym:
            STATS["p2"] += 1
            L = len(self)
            i = slice(_norm(i.start, L, 0), _norm(i.stop, L, L))
        try:
            return orig(self, i)
        except IndexError:
            raise IndexError("index out of range") from None

    cls.__getitem__ = __getitem__


_wrap_getitem(B.SymbolicBytes)


# ---------------------------------------------------------------- P5
def _make_hex_digit(value):
    with NoTracing():
        if isinstance(value, B.SymbolicInt):
            STATS["p5"] += 1
            n = value.var % 16
            return B.SymbolicInt(z3.If(n < 10, 48 + n, 87 + n))
    num = value % 16
    return 48 + num if num < 10 else 87 + num


B.make_hex_digit = _make_hex_digit

# ---------------------------------------------------------------- P6
_orig_pct = B._str_percent_format


def _has_sym(x):
    if isinstance(x, _CHV):
        return True
    if isinstance(x, tuple):
        return any(_has_sym(y) for y in x)
    return False


def _pct(self, other):
    with NoTracing():
        f = sys._getframe(1)
        depth = 0
        in_ip = False
        while f is not None and depth < 6:
            if f.f_code.co_filename.endswith("ipaddress.py"):
                in_ip = True
                break
            f = f.f_back
            depth += 1
        if in_ip and (_has_sym(other) or isinstance(self, _CHV)):
            STATS["p6"] += 1
            return "<symbolic message>"
    # same as the stock patch (realise, then format), but without re-entering this patch
    if not isinstance(self, str):
        raise TypeError
    other = _core.deep_realize(other)
    with NoTracing():
        return realize(self).__mod__(other)


_core._PATCH_REGISTRATIONS[str.__mod__] = _pct


# ---------------------------------------------------------------- P7
def _wrap_eq(cls):
    orig = cls.__eq__

    def __eq__(self, other):
        with NoTracing():
            fast = None
            if isinstance(other, (bytes, B.SymbolicBytes)):
                a = self.inner if isinstance(self, B.SymbolicBytes) else self
                b = other.inner if isinstance(other, B.SymbolicBytes) else other
                if isinstance(a, (list, tuple, bytes)) and isinstance(b, (list, tuple, bytes)):
                    if len(a) != len(b):
                        return False
                    terms = []
                    ok = True
                    for x, y in zip(a, b):
                        xs = x.var if isinstance(x, B.SymbolicInt) else (
                            z3.IntVal(x) if isinstance(x, int) else None)
                        ys = y.var if isinstance(y, B.SymbolicInt) else (
                            z3.IntVal(y) if isinstance(y, int) else None)
                        if xs is None or ys is None:
                            ok = False
                            break
                        if isinstance(x, int) and isinstance(y, int):
                            if x != y:
                                return False
                            continue
                        terms.append(xs == ys)
                    if ok:
                        if not terms:
                            return True
                        STATS["p7"] += 1
                        fast = B.SymbolicBool(z3.And(*terms) if len(terms) > 1 else terms[0])
            if fast is not None:
                return fast
        return orig(self, other)

    cls.__eq__ = __eq__
    cls.__ne__ = lambda self, other: not self.__eq__(other)


_wrap_eq(B.SymbolicBytes)
