"""Run an engine-'py' query: the named function does the solver work itself (E2) and returns
a result dict {verdict: proved|cex|inconclusive|harness-error, ...}.  One JSON line on stdout."""
import argparse
import importlib
import json
import os
import sys
import traceback

HERE = os.path.dirname(os.path.dirname(os.path.abspath(__file__)))
if HERE not in sys.path:
    sys.path.insert(0, HERE)


def main():
    ap = argparse.ArgumentParser()
    ap.add_argument("--module", required=True)
    ap.add_argument("--fn", required=True)
    args = ap.parse_args()
    real_stdout = sys.stdout
    sys.stdout = sys.stderr
    os.environ.setdefault("VF_MODE", "check")
    work = os.path.join(HERE, ".work")
    os.makedirs(work, exist_ok=True)
    os.environ["VF_WORK"] = work
    try:
        mod = importlib.import_module(args.module)
        out = getattr(mod, args.fn)()
    except BaseException as e:      # noqa
        import vf.h as h
        if isinstance(e, h.HarnessTargetMissing) or h.is_harness_fault(e):
            # the harness reached for an internal name this tree no longer has: no verdict, never a finding
            out = {"verdict": "inconclusive", "detail": f"harness target missing in this tree: {type(e).__name__}: {e}"}
        else:
            out = {"verdict": "harness-error", "detail": f"{type(e).__name__}: {e}",
                   "traceback": traceback.format_exc()[-3000:]}
    sys.stdout = real_stdout
    print(json.dumps(out, default=str))


if __name__ == "__main__":
    main()
