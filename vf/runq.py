"""Run ONE query in this (fresh) process and print one JSON line on stdout.

  python -m vf.runq --module props.c18 --fn roundtrip --mode check --cto 30 --pto 10
  python -m vf.runq --module props.c18 --fn roundtrip --mode replay --call "roundtrip([1, 9])"

env: VF_PARAMS (json grid point), VF_REPO (default /repo)

modes
  check   CrossHair explores every path of the harness condition (real bromelia code from VF_REPO)
  reach   same harness, h.reached() raises ReachWitness: a counterexample == the assertion is reachable
  replay  native (no CrossHair) call of the harness with concrete arguments, preconditions re-evaluated
"""
import argparse
import collections
import importlib
import io
import json
import os
import re
import sys
import time
import traceback

HERE = os.path.dirname(os.path.dirname(os.path.abspath(__file__)))
if HERE not in sys.path:
    sys.path.insert(0, HERE)


def _load(module):
    return importlib.import_module(module)


_SEEN = set()


def _profile_hook(repo):
    prefix = os.path.join(repo, "bromelia")

    def prof(frame, event, arg):
        if event == "call":
            co = frame.f_code
            if co.co_filename.startswith(prefix):
                _SEEN.add(co.co_filename[len(prefix) + 1:-3].replace("/", ".") + ":" + co.co_qualname)
    return prof


def run_check(args):
    os.environ["VF_MODE"] = args.mode
    from crosshair.core_and_libs import analyze_function, run_checkables
    from crosshair.options import AnalysisOptionSet
    from crosshair.pure_importer import prefer_pure_python_imports
    from crosshair.statespace import MessageType
    import vf.plugin as plugin
    with prefer_pure_python_imports():
        mod = _load(args.module)
    fn = getattr(mod, args.fn)
    stats = collections.Counter()
    opts = AnalysisOptionSet(per_condition_timeout=float(args.cto), per_path_timeout=float(args.pto),
                             report_all=True, max_uninteresting_iterations=sys.maxsize, stats=stats)
    t0 = time.time()
    checkables = analyze_function(fn, opts)
    msgs = run_checkables(checkables)
    wall = time.time() - t0
    out = {"mode": args.mode, "module": args.module, "fn": args.fn, "wall_s": round(wall, 3),
           "paths": stats.get("num_paths", 0), "plugin": {k: (round(v, 3) if isinstance(v, float) else v)
                                                          for k, v in plugin.STATS.items()},
           "messages": []}
    worst = None
    order = [MessageType.CONFIRMED, MessageType.CANNOT_CONFIRM, MessageType.PRE_UNSAT]
    for m in msgs:
        out["messages"].append({"state": m.state.name, "message": m.message, "line": m.line,
                                "traceback": (m.traceback or "")[-1500:]})
    states = [m.state for m in msgs]
    cex = [m for m in msgs if m.state not in order and m.state != MessageType.SYNTAX_ERR
           and m.state != MessageType.IMPORT_ERR]
    hard = [m for m in msgs if m.state in (MessageType.SYNTAX_ERR, MessageType.IMPORT_ERR)]
    if hard:
        out["verdict"] = "harness-error"
        out["detail"] = hard[0].message
    elif cex:
        m = cex[0]
        out["verdict"] = "cex"
        out["detail"] = m.message
        mm = re.search(r"when calling (.*?)(?: \(which returns .*\))?$", m.message, re.S)
        out["call"] = mm.group(1) if mm else None
    elif MessageType.PRE_UNSAT in states:
        out["verdict"] = "pre-unsat"
        out["detail"] = [m.message for m in msgs if m.state == MessageType.PRE_UNSAT][0]
    elif MessageType.CANNOT_CONFIRM in states:
        out["verdict"] = "not-confirmed"
    elif MessageType.CONFIRMED in states:
        out["verdict"] = "proved"
    else:
        out["verdict"] = "harness-error"
        out["detail"] = "no messages (no conditions found?)"
    return out


def _harness_target_missing(e):
    if not isinstance(e, (AttributeError, NameError, ImportError, TypeError)):
        return False
    tb = e.__traceback__
    while tb is not None and tb.tb_next is not None:
        tb = tb.tb_next
    if tb is None or not tb.tb_frame.f_code.co_filename.startswith(HERE + os.sep):
        return False                      # raised inside the code under test (or the standard library): a real failure
    if isinstance(e, AttributeError):
        obj = getattr(e, "obj", None)
        mod = getattr(type(obj), "__module__", "") or ""
        is_lib_object = mod.startswith("bromelia") or isinstance(obj, type(os)) or (isinstance(obj, type) and obj.__module__.startswith("bromelia"))
        return bool(is_lib_object)        # e.g. None.dump is NOT this case: that is the library returning the wrong thing
    if isinstance(e, TypeError):
        return "argument" in str(e) or "positional" in str(e)      # a private signature changed under the harness
    return True


def run_replay(args, mode="replay"):
    os.environ["VF_MODE"] = mode
    mod = _load(args.module)
    import vf.h as h
    fn = getattr(mod, args.fn)
    out = {"mode": "replay", "module": args.module, "fn": args.fn, "call": args.call}
    # evaluate the call expression's arguments in the harness module's namespace
    ns = dict(vars(mod))
    import math
    ns.setdefault("math", math)
    ns.setdefault("nan", float("nan"))
    ns.setdefault("inf", float("inf"))
    captured = {}

    def _capture(*a, **k):
        captured["a"], captured["k"] = a, k
    ns[args.fn] = _capture
    try:
        eval(args.call, ns)
    except Exception as e:
        out["verdict"] = "unreplayable"
        out["detail"] = f"cannot evaluate call expression: {e!r}"
        return out
    a, k = captured["a"], captured["k"]
    # re-evaluate the preconditions natively
    import inspect
    sig = inspect.signature(fn)
    try:
        bound = sig.bind(*a, **k)
        bound.apply_defaults()
    except TypeError as e:
        out["verdict"] = "unreplayable"
        out["detail"] = repr(e)
        return out
    pres = re.findall(r"^\s*pre:\s*(.*)$", fn.__doc__ or "", re.M)
    for p in pres:
        env = dict(vars(mod))
        env.update(bound.arguments)
        try:
            ok = eval(p, env)
        except Exception as e:
            ok = False
        if not ok:
            out["verdict"] = "pre-false"
            out["detail"] = p
            return out
    t0 = time.time()
    sys.setprofile(_profile_hook(os.environ.get("VF_REPO", "/repo")))
    try:
        r = fn(*a, **k)
        out["returned"] = repr(r)[:500]
        out["verdict"] = "holds" if r is True or (r and not isinstance(r, bool)) else "fails"
        if r is None:
            out["verdict"] = "fails"
    except h.ReachWitness:
        out["verdict"] = "reached"
    except h.HarnessTargetMissing as e:
        out["verdict"] = "target-missing"
        out["detail"] = repr(e)
    except h.HarnessError as e:
        out["verdict"] = "harness-error"
        out["detail"] = repr(e)
    except (KeyboardInterrupt, SystemExit):
        raise
    except BaseException as e:      # bromelia's own errors derive from BaseException
        out["verdict"] = "fails"
        out["raised"] = f"{type(e).__name__}: {e}"[:500]
        out["traceback"] = traceback.format_exc()[-2000:]
        if h.is_harness_fault(e):
            # the HARNESS reached for an internal name the current tree no longer has (renamed private attribute, changed
            # private signature): nothing is known about the property - inconclusive, never a finding
            out["verdict"] = "target-missing"
            out["detail"] = out["raised"]
    finally:
        sys.setprofile(None)
    out["wall_s"] = round(time.time() - t0, 3)
    out["functions"] = sorted(_SEEN)
    out["notes"] = h.NOTES
    return out


def main():
    ap = argparse.ArgumentParser()
    ap.add_argument("--module", required=True)
    ap.add_argument("--fn", required=True)
    ap.add_argument("--mode", default="check", choices=["check", "reach", "replay", "replay-reach"])
    ap.add_argument("--cto", default="30")
    ap.add_argument("--pto", default="10")
    ap.add_argument("--call")
    args = ap.parse_args()
    # keep stdout clean: harness/bromelia prints go to stderr
    real_stdout = sys.stdout
    sys.stdout = sys.stderr
    try:
        if args.mode in ("check", "reach"):
            out = run_check(args)
        elif args.mode == "replay-reach":
            out = run_replay(args, mode="reach")
        else:
            out = run_replay(args)
    except BaseException as e:       # noqa: report everything as harness error
        out = {"verdict": "harness-error", "detail": f"{type(e).__name__}: {e}",
               "traceback": traceback.format_exc()[-3000:]}
    sys.stdout = real_stdout
    print(json.dumps(out))


if __name__ == "__main__":
    main()
