"""Stand-in transport for the single-threaded state-machine harnesses (C03 part B, C06, C07).

The REAL TcpClient/TcpServer object is used; only its kernel-facing members are replaced:
  transport.sock      -> HSocket   (recv returns the next queued chunk / b"" after peer close / raises BlockingIOError;
                                    send accepts the planned number of bytes)
  transport.selector  -> HSelector (level-triggered; reports exactly registered mask & readiness, carries the registered
                                    data; after one pass raises Stop so that the real _run loop body executes once)
so _run/read/_read/write/_write/_set_selector_events_mask/close are the real methods.
time.sleep in bromelia.statemachine and random.choice in bromelia.transport are stubbed (documented assumptions).
"""
import selectors
import types

from vf.cosched import loop_body_function
from vf.h import HarnessError

import bromelia.transport as T
import bromelia.statemachine as SM
import bromelia.setup as S

T.random = types.SimpleNamespace(choice=lambda seq: seq[0])
CURRENT = [None]


def _sleep(seconds):
    """time.sleep as seen by the state machine: while the state-machine thread sleeps, the transport thread runs
    (one pass of its real loop body) - that is what the SLEEP_TIMER pause before a forced close is for"""
    node = CURRENT[0]
    if node is not None and seconds >= 1 and node.assoc.transport is not None:
        for _ in range(2):
            pump(node.transport)


SM.time = types.SimpleNamespace(sleep=_sleep)
S.time = types.SimpleNamespace(sleep=lambda s: None)


class Stop(Exception):
    """leaves the real TcpConnection._run loop after one pass"""


class HSocket:
    def __init__(self):
        self.inbox = []          # chunks the peer "sent"
        self.peer_closed = False
        self.recv_error = False
        self.sent = []           # chunks accepted by send()
        self.send_plan = []      # per call: number of bytes to accept (None/absent: everything), -1: BlockingIOError
        self.closed = False

    def recv(self, n):
        if self.recv_error:
            raise ConnectionResetError("reset by peer")
        if self.inbox:
            return self.inbox.pop(0)
        if self.peer_closed:
            return b""
        raise BlockingIOError()

    def send(self, b):
        if self.closed:
            raise OSError(9, "bad file descriptor")
        if len(b) == 0:
            return 0
        k = self.send_plan.pop(0) if self.send_plan else None
        if k == -1:
            raise BlockingIOError()
        if k is None or k >= len(b):
            k = len(b)
        self.sent.append(b[:k])
        return k

    def shutdown(self, how):
        # a socket whose connection was reset or never established is no longer connected: ENOTCONN (Linux); after an orderly
        # FIN from the peer it still is (CLOSE_WAIT) and shutdown succeeds
        if self.closed:
            raise OSError(9, "Bad file descriptor")
        if self.recv_error or getattr(self, "connect_result", 0) not in (0, 115) or any(isinstance(x, str) for x in self.send_plan):
            raise OSError(107, "Transport endpoint is not connected")
        self.shut = True

    def close(self):
        self.closed = True

    def readable(self):
        return bool(self.inbox) or self.peer_closed or self.recv_error


class _Key:
    def __init__(self, fileobj, data):
        self.fileobj, self.data = fileobj, data


class HSelector:
    def __init__(self):
        self.reg = {}
        self.passes = 0
        self.closed = False

    def register(self, sock, mask, data=None):
        self.reg[id(sock)] = (sock, mask, data)

    def modify(self, sock, mask, data=None):
        if id(sock) not in self.reg:
            raise KeyError(sock)
        self.reg[id(sock)] = (sock, mask, data)

    def unregister(self, sock):
        if id(sock) not in self.reg:
            raise KeyError(sock)
        del self.reg[id(sock)]

    def get_map(self):
        return dict(self.reg)

    def close(self):
        self.closed = True

    def select(self, timeout=None):
        self.passes += 1
        if self.passes > 1:
            raise Stop()
        out = []
        for sock, mask, data in list(self.reg.values()):
            ready = 0
            if mask & selectors.EVENT_WRITE:
                ready |= selectors.EVENT_WRITE
            if mask & selectors.EVENT_READ and sock.readable():
                ready |= selectors.EVENT_READ
            if ready:
                out.append((_Key(sock, data), ready))
        return out


import threading as _threading


class QuickEvent(_threading.Event):
    """threading.Event for the single-threaded harnesses: a wait WITH a timeout returns at once (no other thread exists that
    could set the event meanwhile).  Installed on every plain Event the transport holds, under whatever attribute name."""

    def wait(self, timeout=None):
        if timeout is not None:
            return self.is_set()
        return _threading.Event.wait(self, timeout)


class PumpingEvent:
    """transport.write_mode_on for single-threaded harnesses: while the state-machine thread waits for the transport to
    leave write mode, the transport thread runs (one pass of its real loop body per wait)"""

    def __init__(self, transport):
        self.transport, self.flag, self.waits = transport, False, 0

    def set(self):
        self.flag = True

    def clear(self):
        self.flag = False

    def is_set(self):
        return self.flag

    def wait(self, timeout=None):
        self.waits += 1
        if self.waits > 50:
            raise HarnessError("write_mode_on.wait() spun 50 times: the transport never left write mode")
        pump(self.transport)
        return self.flag


def pump(transport):
    """one pass of the real transport thread body (select, then write()/read() as the events say)"""
    transport.selector.passes = 0
    try:
        transport._run()
    except Stop:
        pass


BASE_CFG = {"MODE": "CLIENT", "APPLICATIONS": [{"vendor_id": b"\x00\x00\x28\xaf", "app_id": b"\x01\x00\x00\x23"}], "TRANSPORT_TYPE": "TCP",
            "LOCAL_NODE_HOSTNAME": "local.host", "LOCAL_NODE_REALM": "local.realm", "LOCAL_NODE_IP_ADDRESS": "10.0.0.1", "LOCAL_NODE_PORT": 3868,
            "PEER_NODE_HOSTNAME": "peer.host", "PEER_NODE_REALM": "peer.realm", "PEER_NODE_IP_ADDRESS": "10.0.0.2", "PEER_NODE_PORT": 3868,
            "WATCHDOG_TIMEOUT": 3}

_DIAMETERS = {}


def diameter(role="CLIENT", napps=1, watchdog=3):
    key = (role, napps, watchdog)
    if key not in _DIAMETERS:
        cfg = dict(BASE_CFG)
        cfg["MODE"] = role
        cfg["WATCHDOG_TIMEOUT"] = watchdog
        apps = [{"vendor_id": b"\x00\x00\x28\xaf", "app_id": b"\x01\x00\x00\x23"}, {"vendor_id": b"\x00\x00\x28\xaf", "app_id": b"\x01\x00\x00\x14"}]
        cfg["APPLICATIONS"] = apps[:napps]
        _DIAMETERS[key] = S.Diameter(config=cfg)
    return _DIAMETERS[key]


def _forget_identifiers():
    """the process-wide identifier registries only ever grow (linear membership tests): a harness that builds thousands of
    nodes in one process empties them between nodes - identifiers of different harness runs never meet"""
    from bromelia.base import DiameterRequest
    for name in ("hop_by_hop_identifiers", "end_to_end_identifiers"):
        reg = getattr(DiameterRequest, name, None)
        if isinstance(reg, list):
            del reg[:]


class Node:
    """a Diameter node object with a fresh association on a stand-in transport, tickable one state-machine step at a time"""

    def __init__(self, role="CLIENT", napps=1, watchdog=3, connected=True, reuse=None):
        if reuse is not None:
            self.d = reuse.d                                  # the same node object started again: templates survive
        else:
            self.d = diameter(role, napps, watchdog)
            _forget_identifiers()
            self.d._base = self.d.get_base_messages()        # fresh shared base-message objects
        self.assoc = S.DiameterAssociation(self.d._connection, self.d._base)
        cls = T.TcpClient if role == "CLIENT" else T.TcpServer
        t = cls(self.d._connection.peer_node.ip_address, self.d._connection.peer_node.port)
        t.selector.close()
        self.sock, self.sel = HSocket(), HSelector()
        t.sock, t.selector = self.sock, self.sel
        if role != "CLIENT":                     # what TcpServer.start() would have created
            t.server_sock, t.server_selector = HSocket(), HSelector()
            t.server_selector.register(t.server_sock, selectors.EVENT_READ | selectors.EVENT_WRITE)
        t.is_connected = connected
        if connected:
            self.sel.register(self.sock, selectors.EVENT_READ | (selectors.EVENT_WRITE if role == "CLIENT" else 0))
        for k, v in list(vars(t).items()):
            if type(v) is _threading.Event:
                q = QuickEvent()
                if v.is_set():
                    q.set()
                setattr(t, k, q)
        t.write_mode_on = PumpingEvent(t)
        self.transport = t
        self.assoc.transport = t
        self.psm = SM.PeerStateMachine(self.assoc)
        self.d._association, self.d._peer_state_machine = self.assoc, self.psm
        self.psm.is_running = True
        CURRENT[0] = self

    _tick = staticmethod(loop_body_function(SM.PeerStateMachine._PeerStateMachine__start, "psm_tick"))
    _worker_step = staticmethod(loop_body_function(S.DiameterAssociation.recv_message_from_queue, "worker_step"))

    def tick(self):
        """one iteration of the real PeerStateMachine thread loop"""
        Node._tick(self.psm)

    def worker_step(self):
        """one iteration of the real receive-worker loop (its Event wait returns at once: nobody else could set the event in
        a single-threaded run, see QuickEvent)"""
        Node._worker_step(self.assoc)

    def force_state(self, name):
        self.psm.current_state = self.psm.states[name]
        self.psm.current_state.name = name

    def state(self):
        return self.d.get_current_state()

    def flush(self):
        """let the transport thread body run until nothing is left to write; -> bytes written so far"""
        for _ in range(4):
            if self.assoc.transport is None:
                break
            pump(self.transport)
        return b"".join(self.sock.sent)

    def handed(self):
        """byte stream currently attached to the selector registration (what the state machine handed over)"""
        for sock, mask, data in self.sel.reg.values():
            if data is not None:
                return data                       # trees that attach the stream to the selector key
        t = self.transport
        pending = bytes(t._send_buffer) + bytes(t.data_stream)     # trees that queue it in the transport
        return pending or None
